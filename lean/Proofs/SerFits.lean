import Proofs.Frame
import Proofs.Encode
/-!
  Every value the decoder can return serialises to exactly `Len()` octets: `AVP.SerializeTo`,
  given the `Len()`-sized window that `Message.Serialize` / `GroupedAVP.Serialize` /
  `AVP.Serialize` hand it, never runs past it (its only panic sites are the slice
  `b[hl+len(payload):]` and the padding loop) and leaves no octet unwritten - for every byte
  string that decodes, whether or not it is well formed (lenient zero values, odd Address
  shapes, wrong-width payloads included).
-/
namespace DV
open DV.Spec

mutual
/-- the value fills its `Len()` exactly, at every depth -/
def fitsV : Val → Bool
  | .group as => fitsL as
  | v => v.ser.length == v.len
def fitsA : AVP → Bool
  | .mk _ _ _ _ d => fitsV d
def fitsL : List AVP → Bool
  | [] => true
  | a :: r => fitsA a && fitsL r
end

theorem to4_length (b ip : Bytes) (h : to4 b = some ip) : ip.length = 4 := by
  unfold to4 at h
  split at h
  · rename_i h4; cases h; exact h4
  · split at h
    · rename_i h16; cases h; rw [List.length_drop, h16.1]
    · cases h

theorem to16_some_length (b ip : Bytes) (h : to16 b = some ip) (h4 : to4 b = none) : b.length = 16 := by
  unfold to16 at h
  split at h
  · rename_i hl; unfold to4 at h4; simp [hl] at h4
  · split at h
    · rename_i h16; exact h16
    · cases h

theorem addr_fits (b : Bytes) : (Val.addr b).ser.length = (Val.addr b).len := by
  show (match to4 b with
      | some ip => [0, 1] ++ ip
      | none => match to16 b with
        | some _ => [0, 2] ++ b
        | none => b).length = addrLen b
  unfold addrLen
  cases h4 : to4 b with
  | some ip => simp [to4_length b ip h4]
  | none =>
    cases h16 : to16 b with
    | some ip => simp [to16_some_length b ip h16 h4]
    | none => rfl

theorem leaf_fits (t : Nat) (p : Bytes) (v : Val) (h : decodeLeaf t p = .ok v) : fitsV v = true := by
  rcases decodeLeaf_shape t p v h with ⟨rfl, _⟩ | ⟨⟨b, rfl⟩, _⟩ | ⟨⟨n, rfl⟩, _⟩ | ⟨⟨b, rfl, hb⟩, _⟩ | ⟨⟨b, rfl, hb⟩, _⟩ | ⟨⟨u, rfl⟩, _⟩
  · simp [fitsV, Val.ser, Val.len]
  · simp only [fitsV, beq_iff_eq]; exact addr_fits b
  · simp [fitsV, Val.ser, Val.len]
  · simp [fitsV, Val.ser, Val.len, to4_len4 b hb, hb]
  · simp [fitsV, Val.ser, Val.len, to16_len16 b hb, hb]
  · simp [fitsV, Val.ser, Val.len, encTime]

theorem fitsL_cons (a : AVP) (r : List AVP) : fitsL (a :: r) = (fitsA a && fitsL r) := by rw [fitsL]

theorem decode_fits (ty : Nat → Nat → Nat) : ∀ fuel : Nat,
    (∀ data a, decodeAVP ty fuel data = .ok a → fitsA a = true) ∧
    (∀ b as, decodeAVPs ty fuel b = .ok as → fitsL as = true)
  | 0 => by
    constructor
    · intro data a h; rw [decodeAVP_zero] at h; cases h
    · intro b as h
      rw [decodeAVPs_zero] at h
      split at h
      · cases h; rw [fitsL]
      · cases h
  | fuel+1 => by
    have ih := decode_fits ty fuel
    constructor
    · intro data a h
      rw [decodeAVP_nf] at h
      dsimp only at h
      generalize (data.getD 4 0).toNat = flags at h
      generalize rd ((data.drop 5).take 3) = length at h
      generalize rd (data.take 4) = code at h
      generalize (if hasV flags = true then rd ((data.drop 8).take 4) else 0) = vendor at h
      split at h; · cases h
      split at h; · cases h
      split at h; · cases h
      split at h; · cases h
      rw [decodePayload_mapR] at h
      split at h
      · cases hd : decodeAVPs ty fuel (payloadOf data flags length) with
        | ok kids =>
          rw [hd] at h
          simp only [Res.mapR, Res.ok.injEq] at h
          rw [← h, fitsA, fitsV]
          exact ih.2 _ kids hd
        | err e => rw [hd] at h; cases h
        | panic p => rw [hd] at h; cases h
      · cases hd : decodeLeaf (ty code vendor) (payloadOf data flags length) with
        | ok v =>
          rw [hd] at h
          simp only [Res.mapR, Res.ok.injEq] at h
          rw [← h, fitsA]
          exact leaf_fits _ _ v hd
        | err e => rw [hd] at h; cases h
        | panic p => rw [hd] at h; cases h
    · intro b as h
      rw [decodeAVPs_succ] at h
      split at h
      · cases h; rw [fitsL]
      · cases ha : decodeAVP ty fuel b with
        | ok a =>
          rw [ha] at h
          simp only [Res.bindR] at h
          cases hr : decodeAVPs ty fuel (b.drop (pad4 a.length)) with
          | ok r =>
            rw [hr] at h
            simp only [Res.mapR, Res.ok.injEq] at h
            rw [← h, fitsL_cons, ih.1 b a ha, ih.2 _ r hr]; rfl
          | err e => rw [hr] at h; cases h
          | panic p => rw [hr] at h; cases h
        | err e => rw [ha] at h; cases h
        | panic p => rw [ha] at h; cases h

mutual
/-- a value that fills its `Len()` at every depth is serialised into exactly `Len()` octets -/
theorem fits_ser : ∀ v : Val, fitsV v = true → v.ser.length = v.len
  | .group as, h => by
    rw [fitsV] at h
    show (encL as).length = lenL as
    exact fits_encL as h
  | .str t b, _ => rfl
  | .addr b, _ => addr_fits b
  | .ip4 b, h => by simpa [fitsV] using h
  | .ip6 b, h => by simpa [fitsV] using h
  | .fix t n, _ => by simp [Val.ser, Val.len]
  | .time u, _ => by simp [Val.ser, Val.len, encTime]
theorem fits_enc : ∀ a : AVP, fitsA a = true → a.enc.length = a.len
  | .mk c f l v d, h => by
    rw [fitsA] at h
    rw [AVP.enc_padding, AVP.len_eq]
    have := fits_ser d h
    have hh := hdrLen_cases f
    by_cases hv : hasV f = true
    · have : hdrLen f = 12 := by simp [hdrLen, hv]
      simp [hv, zeros, *]; omega
    · have : hdrLen f = 8 := by simp [hdrLen, hv]
      simp [hv, zeros, *]; omega
theorem fits_encL : ∀ as : List AVP, fitsL as = true → (encL as).length = lenL as
  | [], _ => by rw [encL, lenL]; rfl
  | a :: r, h => by
    rw [fitsL_cons, Bool.and_eq_true] at h
    rw [encL, lenL, List.length_append, fits_enc a h.1, fits_encL r h.2]
end

end DV
