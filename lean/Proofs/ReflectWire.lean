import Proofs.ReflectInv
import Spec.Canon
/-! Proofs.ReflectWire — `Unmarshal` does not look at Length fields: scanning the tree a read
    returns (`wireL`) gives the same struct as scanning the tree that was written (C18, wire). -/
namespace DV
open DV.Spec

theorem wire_code (a : AVP) : (wire a).code = a.code := by cases a; simp [wire]

theorem wire_data_nongroup (a : AVP) (h : ∀ kids, a.data ≠ .group kids) : (wire a).data = a.data := by
  cases a with
  | mk c f l v d =>
    cases d with
    | group kids => exact absurd rfl (h kids)
    | _ => simp [wire]

theorem wire_data_group (a : AVP) (kids : List AVP) (h : a.data = .group kids) : (wire a).data = .group (wireL kids) := by
  cases a with
  | mk c f l v d => simp only [AVP.data_mk] at h; subst h; simp [wire]

theorem wireL_filter (c : Nat) : ∀ (as : List AVP),
    (wireL as).filter (fun a => a.code = c) = wireL (as.filter (fun a => a.code = c))
  | [] => by simp [wireL]
  | a :: r => by
    simp only [wireL, List.filter, wire_code]
    by_cases h : a.code = c
    · simp [h, wireL, wireL_filter c r]
    · simp [h, wireL_filter c r]

theorem tailsNE_wireL : ∀ (as : List AVP), tailsNE (wireL as) = (tailsNE as).map wireL
  | [] => by simp [tailsNE, wireL]
  | a :: r => by simp [tailsNE, wireL, tailsNE_wireL r]

theorem wireL_isEmpty (as : List AVP) : (wireL as).isEmpty = as.isEmpty := by cases as <;> simp [wireL]

theorem lowByte_wire : ∀ (as : List AVP), (wireL as).map lowByte = as.map lowByte
  | [] => by simp [wireL]
  | a :: r => by
    simp only [wireL, List.map_cons, lowByte_wire r]
    congr 1
    cases a with
    | mk c f l v d => cases d <;> simp [wire, lowByte]

section
variable (find : FindFn)

mutual
theorem unmarshal_wire : ∀ (s : Shape) (as : List AVP) (cur : RV), s.noAVP = true →
    unmarshalField find s (wireL as) cur = unmarshalField find s as cur
  | _, [], _, _ => by simp [wireL, unmarshalField]
  | .slice s, a :: rest, cur, hn => by
    simp only [Shape.noAVP] at hn
    have : wireL (a :: rest) = wire a :: wireL rest := rfl
    rw [this]
    simp only [unmarshalField]
    congr 1
    have e : wire a :: wireL rest = wireL (a :: rest) := rfl
    rw [e, tailsNE_wireL, List.map_map]
    apply List.map_congr_left
    intro t _
    exact unmarshal_wire s t (zeroOf s) hn
  | .ptr s, a :: rest, cur, hn => by
    simp only [Shape.noAVP] at hn
    have : wireL (a :: rest) = wire a :: wireL rest := rfl
    rw [this]
    simp only [unmarshalField]
    congr 1
    have e : wire a :: wireL rest = wireL (a :: rest) := rfl
    rw [e]
    exact unmarshal_wire s (a :: rest) _ hn
  | .struct fs, a :: rest, cur, hn => by
    simp only [Shape.noAVP] at hn
    have : wireL (a :: rest) = wire a :: wireL rest := rfl
    rw [this]
    simp only [unmarshalField]
    cases hd : a.data with
    | group kids =>
      rw [wire_data_group a kids hd]
      cases cur with
      | struct vs => simp only [scan_wire fs kids vs hn]
      | _ => rfl
    | _ => rw [wire_data_nongroup a (by intro k; rw [hd]; simp)]; simp [hd]
  | .avp, _ :: _, _, hn => by simp [Shape.noAVP] at hn
  | .leaf t, a :: rest, cur, _ => by
    have : wireL (a :: rest) = wire a :: wireL rest := rfl
    rw [this]
    simp only [unmarshalField]
    have e : wire a :: wireL rest = wireL (a :: rest) := rfl
    have hfd : fromData t (wire a).data = fromData t a.data := by
      cases hd : a.data with
      | group kids => rw [wire_data_group a kids hd]; rfl
      | _ => rw [wire_data_nongroup a (by intro k; rw [hd]; simp), hd]
    rw [hfd, e, lowByte_wire]
theorem scan_wire : ∀ (fs : List SField) (as : List AVP) (vs : List RV), noAVPFields fs = true →
    scanFields find fs (wireL as) vs = scanFields find fs as vs
  | [], _, _, _ => by simp [scanFields]
  | .mk tag s :: fs, as, [], _ => by simp [scanFields]
  | .mk tag s :: fs, as, v :: vs, hn => by
    simp only [noAVPFields, Bool.and_eq_true] at hn
    simp only [scanFields, scan_wire fs as vs hn.2]
    congr 1
    by_cases hemb : tag.emb = true
    · simp only [hemb, if_true]
      exact scanEmb_wire s as v hn.1
    · simp only [hemb]
      simp only [Bool.false_eq_true, if_false]
      by_cases h0 : tag.name = 0
      · simp [h0]
      · simp only [h0, if_false]
        cases entOf find tag.name with
        | none => rfl
        | some e =>
          simp only [wireL_filter, wireL_isEmpty]
          split
          · rfl
          · exact unmarshal_wire s _ v hn.1
theorem scanEmb_wire : ∀ (s : Shape) (as : List AVP) (v : RV), s.noAVP = true →
    scanEmb find s (wireL as) v = scanEmb find s as v
  | .struct efs, as, .struct evs, hn => by
    simp only [Shape.noAVP] at hn
    simp only [scanEmb, scan_wire efs as evs hn]
  | .struct _, _, .leaf _, _ => by simp [scanEmb]
  | .struct _, _, .nil, _ => by simp [scanEmb]
  | .struct _, _, .ptr _, _ => by simp [scanEmb]
  | .struct _, _, .slice _, _ => by simp [scanEmb]
  | .struct _, _, .avp _, _ => by simp [scanEmb]
  | .leaf _, _, _, _ => by simp [scanEmb]
  | .ptr _, _, _, _ => by simp [scanEmb]
  | .slice _, _, _, _ => by simp [scanEmb]
  | .avp, _, _, _ => by simp [scanEmb]
end

end
end DV
