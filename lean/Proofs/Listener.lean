import Model.Listener
/-! Proofs.Listener — the accept loop keeps accepting through any number of temporary errors. -/
namespace DV

/-- invariant of the accept loop while no permanent error has occurred -/
structure LInv (s : LS) (oks : Nat) : Prop where
  running : s.running = true
  open_ : s.lclosed = false
  spawned : s.spawned = oks
  delayCap : s.delay ≤ Gen.acceptBackoffMaxMs
  sleeps : ∀ x ∈ s.slept, Gen.acceptBackoffFirstMs ≤ x ∧ x ≤ Gen.acceptBackoffMaxMs

theorem capDelay_le (x : Nat) : capDelay x ≤ Gen.acceptBackoffMaxMs := by
  unfold capDelay; split <;> omega

theorem nextDelay_bounds (dl : Nat) (hf : Gen.acceptBackoffFirstMs ≤ Gen.acceptBackoffMaxMs)
    (h2 : 1 ≤ Gen.acceptBackoffFactor) (hd : dl = 0 ∨ Gen.acceptBackoffFirstMs ≤ dl) :
    Gen.acceptBackoffFirstMs ≤ nextDelay dl ∧ nextDelay dl ≤ Gen.acceptBackoffMaxMs := by
  refine ⟨?_, capDelay_le _⟩
  unfold nextDelay capDelay
  by_cases h0 : dl = 0
  · simp only [h0, if_true]; split <;> omega
  · simp only [h0, if_false]
    have : Gen.acceptBackoffFirstMs ≤ dl := by rcases hd with h | h; exact absurd h h0; exact h
    have : dl ≤ dl * Gen.acceptBackoffFactor := Nat.le_mul_of_pos_right dl h2
    split <;> omega

def countOk : List LEv → Nat
  | [] => 0
  | .acceptOk :: es => countOk es + 1
  | _ :: es => countOk es

theorem LS_run_noperm (hf : Gen.acceptBackoffFirstMs ≤ Gen.acceptBackoffMaxMs) (h2 : 1 ≤ Gen.acceptBackoffFactor) :
    ∀ (es : List LEv) (s : LS) (n : Nat), LInv s n → (s.delay = 0 ∨ Gen.acceptBackoffFirstMs ≤ s.delay) →
      LEv.acceptPerm ∉ es →
      ∃ s', s.run es = some s' ∧ LInv s' (n + countOk es) ∧ (s'.delay = 0 ∨ Gen.acceptBackoffFirstMs ≤ s'.delay)
  | [], s, n, hi, hd, _ => ⟨s, rfl, by simpa [countOk] using hi, hd⟩
  | e :: es, s, n, hi, hd, hp => by
    have hp' : LEv.acceptPerm ∉ es := fun h => hp (by simp [h])
    have hrun := hi.running
    cases e with
    | acceptPerm => simp at hp
    | acceptOk =>
      have hst : s.step .acceptOk = some { s with delay := 0, spawned := s.spawned + 1 } := by
        simp [LS.step, hrun]
      have hi' : LInv { s with delay := 0, spawned := s.spawned + 1 } (n + 1) :=
        ⟨hi.running, hi.open_, by simp [hi.spawned], by simp, hi.sleeps⟩
      obtain ⟨s', h1, h2', h3⟩ := LS_run_noperm hf h2 es _ (n + 1) hi' (Or.inl rfl) hp'
      refine ⟨s', by simp only [LS.run, hst]; exact h1, ?_, h3⟩
      have : n + countOk (LEv.acceptOk :: es) = n + 1 + countOk es := by simp [countOk]; omega
      rw [this]; exact h2'
    | acceptTemp =>
      have hb := nextDelay_bounds s.delay hf h2 hd
      have hst : s.step .acceptTemp = some { s with delay := nextDelay s.delay, slept := s.slept ++ [nextDelay s.delay] } := by
        simp [LS.step, hrun]
      have hi' : LInv { s with delay := nextDelay s.delay, slept := s.slept ++ [nextDelay s.delay] } n :=
        ⟨hi.running, hi.open_, hi.spawned, hb.2, by
          intro x hx
          simp at hx
          rcases hx with hx | hx
          · exact hi.sleeps x hx
          · subst hx; exact hb⟩
      obtain ⟨s', h1, h2', h3⟩ := LS_run_noperm hf h2 es _ n hi' (Or.inr hb.1) hp'
      exact ⟨s', by simp only [LS.run, hst]; exact h1, by simpa [countOk] using h2', h3⟩

end DV
