import Model.Client
/-! Proofs.Client — invariants of the handshake and watchdog transition systems (C12, C13). -/
namespace DV

/-- invariant of the handshake with `handleCEA` running once and a buffered `errc` -/
structure HInv (s : HS) : Prop where
  cfg : s.onceOnly = true ∧ 1 ≤ s.cap
  wr : s.pc = .writing → s.cers = s.timers ∧ s.round = s.timers ∧ s.round < s.R + 1
  sel : s.pc = .selecting → s.cers = s.timers + 1 ∧ s.round = s.timers ∧ s.round < s.R + 1
  cersLe : s.cers ≤ s.R + 1 ∧ s.cers ≤ s.timers + 1 ∧ s.timers ≤ s.R + 1
  noPanic : s.panics = 0
  noBlock : s.pending = false
  bufLe : s.buf.length ≤ 1
  unfired : s.fired = false → s.buf = [] ∧ s.errcClosed = false ∧ s.hasMeta = false
  bufOpen : s.buf ≠ [] → s.errcClosed = false ∧ s.hasMeta = false
  closedWhy : s.errcClosed = true → s.hasMeta = true ∨ s.pc = .done .cea
  okMeta : s.pc = .done .ok → s.hasMeta = true ∧ s.libClosed = false
  failClosed : ∀ o, s.pc = .done o → o ≠ .ok → s.libClosed = true
  libDone : s.libClosed = true → ∃ o, s.pc = .done o ∧ o ≠ .ok
  metaFired : s.hasMeta = true → s.fired = true ∧ s.errcClosed = true


theorem HInv_init (R cap : Nat) (w : Bool) (hc : 1 ≤ cap) : HInv (HS.init R cap true w) := by
  constructor <;> simp [HS.init, hc]

macro "hinv_close" h:ident : tactic => `(tactic| (
  obtain ⟨h0, h1, h2, h3, h4, h5, h6, h7, h8, h9, h10, h11, h12, h13⟩ := $h
  constructor <;> simp_all <;> grind))

@[simp] theorem handleCEA_R (s : HS) (k : CEAKind) : (s.handleCEA k).R = s.R := by
  unfold HS.handleCEA; cases k <;> (repeat' split) <;> rfl
@[simp] theorem handleCEA_pc (s : HS) (k : CEAKind) : (s.handleCEA k).pc = s.pc := by
  unfold HS.handleCEA; cases k <;> (repeat' split) <;> rfl
@[simp] theorem handleCEA_libClosed (s : HS) (k : CEAKind) : (s.handleCEA k).libClosed = s.libClosed := by
  unfold HS.handleCEA; cases k <;> (repeat' split) <;> rfl
@[simp] theorem handleCEA_cers (s : HS) (k : CEAKind) : (s.handleCEA k).cers = s.cers := by
  unfold HS.handleCEA; cases k <;> (repeat' split) <;> rfl
@[simp] theorem handleCEA_timers (s : HS) (k : CEAKind) : (s.handleCEA k).timers = s.timers := by
  unfold HS.handleCEA; cases k <;> (repeat' split) <;> rfl

/-- `handleCEA` keeps the invariant, whenever it runs -/
theorem HInv_handleCEA (s : HS) (k : CEAKind) (h : HInv s) : HInv (s.handleCEA k) := by
  unfold HS.handleCEA
  by_cases hf : s.onceOnly = true ∧ s.fired = true
  · simp only [hf, and_self, if_true]; exact h
  · simp only [hf, if_false]
    have hfired : s.fired = false := by
      have := h.cfg.1
      cases hfd : s.fired with
      | false => rfl
      | true => simp [this, hfd] at hf
    obtain ⟨u1, u2, u3⟩ := h.unfired hfired
    cases k with
    | failing =>
      simp only [u2, u1]
      have hcap := h.cfg.2
      have : (([] : List Bool).length < s.cap) := by simp; omega
      simp only [this, if_true]
      simp
      hinv_close h
    | success =>
      simp only [u2]
      simp
      hinv_close h

/-- once a CEA has been handled, no later one - dispatched normally or out of the read buffer
    after the transport was closed - changes anything: the first CEA decides -/
theorem handleCEA_once (s : HS) (k : CEAKind) (h : HInv s) (hf : s.fired = true) : s.handleCEA k = s := by
  unfold HS.handleCEA
  simp [h.cfg.1, hf]

theorem HInv_step (s s' : HS) (e : HEv) (h : HInv s) (hs : s.step e = some s') : HInv s' := by
  cases e with
  | writeOk =>
    simp only [HS.step] at hs
    split at hs
    · cases hs; hinv_close h
    · cases hs
  | writeFail =>
    simp only [HS.step] at hs
    split at hs
    · cases hs; hinv_close h
    · cases hs
  | timer =>
    simp only [HS.step] at hs
    split at hs
    · split at hs
      · cases hs; hinv_close h
      · cases hs; hinv_close h
    · cases hs
  | takeErrc =>
    simp only [HS.step] at hs
    split at hs
    · cases hb : s.buf with
      | cons b rest =>
        simp only [hb] at hs
        cases hs
        have hp := h.noBlock
        have hbo := h.bufOpen (by simp [hb])
        have hl := h.bufLe
        simp [hb] at hl
        subst hl
        simp only [hp, hbo.1]
        hinv_close h
      | nil =>
        simp only [hb] at hs
        have hp := h.noBlock
        simp only [hp] at hs
        by_cases hcl : s.errcClosed = true
        · simp [hcl] at hs
          cases hs; hinv_close h
        · simp [hcl] at hs
    · cases hs
  | cea k =>
    simp only [HS.step] at hs
    split at hs
    · cases hs
    · cases hs; exact HInv_handleCEA s k h
  | leftover k =>
    simp only [HS.step] at hs
    split at hs
    · cases hs; exact HInv_handleCEA s k h
    · cases hs
  | peerClose =>
    simp only [HS.step] at hs
    split at hs
    · cases hs
    · cases hs; hinv_close h

theorem HInv_run : ∀ (es : List HEv) (s s' : HS), HInv s → s.run es = some s' → HInv s'
  | [], s, s', h, hr => by simp [HS.run] at hr; subst hr; exact h
  | e :: es, s, s', h, hr => by
    simp only [HS.run] at hr
    cases hst : s.step e with
    | none => simp [hst] at hr
    | some s1 =>
      simp only [hst] at hr
      exact HInv_run es s1 s' (HInv_step s s1 e h hst) hr

/-! ### watchdog -/


structure WdInv (s : WD) : Prop where
  cfg : 1 ≤ s.cap
  wr : ∀ i, s.pc = .writing i → s.cycleDwrs = i ∧ s.cycleTimers = i ∧ i < s.R + 1
  sel : ∀ i, s.pc = .selecting i → s.cycleDwrs = i + 1 ∧ s.cycleTimers = i ∧ i < s.R + 1
  ans : s.answered = true → (∃ i, s.pc = .writing i ∨ s.pc = .selecting i) → 1 ≤ s.dwac
  ansW0 : s.pc = .writing 0 → s.answered = false
  closed : s.closedByWD = true → s.cycleDwrs = s.R + 1 ∧ s.cycleTimers = s.R + 1 ∧ s.answeredAtClose = false ∧
      s.gone = true ∧ (s.pc = .sleeping ∨ s.pc = .stopped)
  le : s.cycleDwrs ≤ s.R + 1
  dwacLe : s.dwac ≤ s.cap

theorem WdInv_init (R cap : Nat) (dr : Bool) (hc : 1 ≤ cap) : WdInv (WD.init R cap dr) := by
  constructor <;> simp [WD.init, hc]

macro "winv_close" h:ident : tactic => `(tactic| (
  obtain ⟨h0, h1, h2, h3, h4, h5, h6, h7⟩ := $h
  constructor <;> simp_all <;> grind))

theorem WdInv_step (s s' : WD) (e : WdEv) (h : WdInv s) (hs : s.step e = some s') : WdInv s' := by
  cases e with
  | wdTimer =>
    simp only [WD.step] at hs
    split at hs
    · cases hs; winv_close h
    · cases hs
  | wdStop =>
    simp only [WD.step] at hs
    split at hs
    · cases hs; winv_close h
    · cases hs
  | writeOk =>
    cases hp : s.pc with
    | writing i =>
      simp only [WD.step, hp] at hs
      split at hs
      · cases hs
      · cases hs; winv_close h
    | sleeping => simp [WD.step, hp] at hs
    | selecting i => simp [WD.step, hp] at hs
    | stopped => simp [WD.step, hp] at hs
  | writeFail =>
    cases hp : s.pc with
    | writing i =>
      simp only [WD.step, hp] at hs
      cases hs; winv_close h
    | sleeping => simp [WD.step, hp] at hs
    | selecting i => simp [WD.step, hp] at hs
    | stopped => simp [WD.step, hp] at hs
  | rtTimer =>
    cases hp : s.pc with
    | selecting i =>
      simp only [WD.step, hp] at hs
      split at hs
      · cases hs
      · rename_i hd
        have hans : s.answered = false := by
          cases ha : s.answered with
          | false => rfl
          | true => have := h.ans ha ⟨i, Or.inr hp⟩; omega
        split at hs
        · cases hs; winv_close h
        · cases hs; winv_close h
    | sleeping => simp [WD.step, hp] at hs
    | writing i => simp [WD.step, hp] at hs
    | stopped => simp [WD.step, hp] at hs
  | ack =>
    cases hp : s.pc with
    | selecting i =>
      simp only [WD.step, hp] at hs
      split at hs
      · cases hs; winv_close h
      · cases hs
    | sleeping => simp [WD.step, hp] at hs
    | writing i => simp [WD.step, hp] at hs
    | stopped => simp [WD.step, hp] at hs
  | dwaOk =>
    simp only [WD.step] at hs
    split at hs
    · cases hs
    · cases hs
      cases hp : s.pc <;> winv_close h
  | dwaOkWaiting =>
    simp only [WD.step] at hs
    split at hs
    · cases hs
    · cases hp : s.pc with
      | selecting i =>
        simp only [hp] at hs
        have hc := h.cfg
        have : ¬ (s.dwac = 0 ∧ s.cap = 0) := by omega
        simp only [this, if_false] at hs
        cases hs; winv_close h
      | sleeping => simp [hp] at hs
      | writing i => simp [hp] at hs
      | stopped => simp [hp] at hs
  | dwaFail =>
    simp only [WD.step] at hs
    split at hs
    · cases hs
    · cases hs; exact h
  | disconnect =>
    simp only [WD.step] at hs
    split at hs
    · cases hs
    · cases hs; winv_close h

theorem WdInv_run : ∀ (es : List WdEv) (s s' : WD), WdInv s → s.run es = some s' → WdInv s'
  | [], s, s', h, hr => by simp [WD.run] at hr; subst hr; exact h
  | e :: es, s, s', h, hr => by
    simp only [WD.run] at hr
    cases hst : s.step e with
    | none => simp [hst] at hr
    | some s1 =>
      simp only [hst] at hr
      exact WdInv_run es s1 s' (WdInv_step s s1 e h hst) hr

def silentRounds (n : Nat) : List WdEv := (List.replicate n [WdEv.writeOk, WdEv.rtTimer]).flatten

/-- a peer that never answers: from round `i` of a dwr() call, `R + 1 - i` rounds of
    (write, timer expiry) follow and the last expiry closes the connection -/
theorem silent_run : ∀ (n : Nat) (s : WD) (i : Nat), s.pc = .writing i → s.dwac = 0 → s.gone = false →
    i + n = s.R + 1 → 0 < n →
    ∃ s', s.run (silentRounds n) = some s' ∧ s'.closedByWD = true ∧ s'.cycleDwrs = s.cycleDwrs + n ∧
      s'.cycleTimers = s.cycleTimers + n ∧ s'.pc = .sleeping
  | 0, _, _, _, _, _, _, hn => by omega
  | n+1, s, i, hp, hd, hg, hin, _ => by
    have e : silentRounds (n + 1) = WdEv.writeOk :: WdEv.rtTimer :: silentRounds n := by
      simp [silentRounds, List.replicate_succ]
    rw [e]
    have h1 : s.step .writeOk = some { s with pc := .selecting i, cycleDwrs := s.cycleDwrs + 1 } := by
      simp [WD.step, hp, hg]
    simp only [WD.run, h1]
    by_cases hlast : n = 0
    · subst hlast
      have hi : ¬ (i + 1 < s.R + 1) := by omega
      simp [WD.step, hd, hi, silentRounds, WD.run]
    · have hi : i + 1 < s.R + 1 := by omega
      have h2 : ({ s with pc := .selecting i, cycleDwrs := s.cycleDwrs + 1 } : WD).step .rtTimer =
          some { s with pc := .writing (i + 1), cycleDwrs := s.cycleDwrs + 1, cycleTimers := s.cycleTimers + 1 } := by
        simp [WD.step, hd, hi]
      simp only [h2]
      obtain ⟨s', r1, r2, r3, r4, r5⟩ := silent_run n
        { s with pc := .writing (i + 1), cycleDwrs := s.cycleDwrs + 1, cycleTimers := s.cycleTimers + 1 } (i + 1)
        rfl hd hg (by simp; omega) (by omega)
      exact ⟨s', r1, r2, by simp at r3; omega, by simp at r4; omega, r5⟩

end DV
