import Model.Dict
import Spec.DictSpec
/-! `dict.Parser` (indexes with overwrite) refines the chronological-log Spec (C17). -/
namespace DV
open DV.Spec

theorem lastSome_append_single (p : α → Bool) (l : List α) (x : α) :
    lastSome p (l ++ [x]) = if p x then some x else lastSome p l := by
  induction l with
  | nil => simp [lastSome]
  | cons y r ih =>
    simp only [List.cons_append, lastSome, ih]
    by_cases h : p x = true
    · simp [h]
    · simp [h]

theorem alookup_find (k : Nat) (l : List (Nat × Nat)) :
    alookup k l = (l.find? (fun p => p.1 = k)).map (·.2) := by
  induction l with
  | nil => rfl
  | cons x r ih =>
    obtain ⟨a, b⟩ := x
    simp only [alookup, List.find?_cons]
    by_cases h : a = k
    · simp [h]
    · have : (a == k) = false := by simp [h]
      simp [this, h, ih]

/-- the refinement relation between the indexed parser and the log -/
structure Refines (p : Parser) (l : Log) : Prop where
  apps : p.apps = l.apps
  code : ∀ a c v, alookup (a, c, v) p.avpcode = lastSome (defMatchesCode a c v) l.avps
  name : ∀ a n v, alookup (a, n, v) p.avpname = lastSome (defMatchesName a n v) l.avps
  cmd : ∀ a c, alookup (a, c) p.command = (lastSome (fun q => decide (q.1 = a ∧ q.2.code = c)) l.cmds).map (·.2)

theorem refines_init : Refines {} {} := by
  refine ⟨rfl, ?_, ?_, ?_⟩ <;> intros <;> simp [alookup, lastSome]

theorem loadAvps_refines (available : List (Nat × Nat)) (app : Nat) :
    ∀ (rows : List AvpRow) (p : Parser) (l : Log), Refines p l →
      Refines (loadAvps available app rows p).1 (logAvps available app rows l).1 ∧
      (loadAvps available app rows p).2 = (logAvps available app rows l).2
  | [], p, l, h => by simp [loadAvps, logAvps, h]
  | (name, code, vendor, must, tyName, items) :: r, p, l, h => by
    simp only [loadAvps, logAvps]
    have hty : resolveType available tyName = (available.find? (fun q => q.1 = tyName)).map (·.2) := by
      unfold resolveType; exact alookup_find tyName available
    rw [hty]
    generalize hk : (available.find? (fun q => q.1 = tyName)).map (·.2) = known
    let d : AvpDef := { name, code, vendor, must, tyName, items, ty := known.getD 0, app }
    have hstep : Refines
        { p with avpname := ((app, name, UndefinedVendorID), d) :: ((app, name, vendor), d) :: p.avpname,
                 avpcode := ((app, code, UndefinedVendorID), d) :: ((app, code, vendor), d) :: p.avpcode }
        { l with avps := l.avps ++ [d] } := by
      refine ⟨h.apps, ?_, ?_, ?_⟩
      · intro a c v
        simp only [alookup, lastSome_append_single, defMatchesCode]
        rw [h.code a c v]
        by_cases h1 : app = a ∧ code = c
        · obtain ⟨rfl, rfl⟩ := h1
          by_cases h2 : v = UndefinedVendorID
          · simp [h2, d]
          · by_cases h3 : vendor = v
            · simp [h3, d]
            · have e1 : ((app, code, UndefinedVendorID) == (app, code, v)) = false := by
                simp; exact fun e => h2 e.symm
              have e2 : ((app, code, vendor) == (app, code, v)) = false := by simp [h3]
              simp [e1, e2, h2, h3, d]
        · have e1 : ((app, code, UndefinedVendorID) == (a, c, v)) = false := by
            simp; intro ha hc; exact absurd ⟨ha, hc⟩ h1
          have e2 : ((app, code, vendor) == (a, c, v)) = false := by
            simp; intro ha hc; exact absurd ⟨ha, hc⟩ h1
          have e3 : ¬ (app = a ∧ code = c ∧ (v = UndefinedVendorID ∨ vendor = v)) := fun hh => h1 ⟨hh.1, hh.2.1⟩
          simp [e1, e2, e3, d]
      · intro a n v
        simp only [alookup, lastSome_append_single, defMatchesName]
        rw [h.name a n v]
        by_cases h1 : app = a ∧ name = n
        · obtain ⟨rfl, rfl⟩ := h1
          by_cases h2 : v = UndefinedVendorID
          · simp [h2, d]
          · by_cases h3 : vendor = v
            · simp [h3, d]
            · have e1 : ((app, name, UndefinedVendorID) == (app, name, v)) = false := by
                simp; exact fun e => h2 e.symm
              have e2 : ((app, name, vendor) == (app, name, v)) = false := by simp [h3]
              simp [e1, e2, h2, h3, d]
        · have e1 : ((app, name, UndefinedVendorID) == (a, n, v)) = false := by
            simp; intro ha hc; exact absurd ⟨ha, hc⟩ h1
          have e2 : ((app, name, vendor) == (a, n, v)) = false := by
            simp; intro ha hc; exact absurd ⟨ha, hc⟩ h1
          have e3 : ¬ (app = a ∧ name = n ∧ (v = UndefinedVendorID ∨ vendor = v)) := fun hh => h1 ⟨hh.1, hh.2.1⟩
          simp [e1, e2, e3, d]
      · exact h.cmd
    cases known with
    | none => exact ⟨hstep, rfl⟩
    | some t => exact loadAvps_refines available app r _ _ hstep

theorem loadCmds_refines (app : Nat) :
    ∀ (rows : List CmdRow) (p : Parser) (l : Log), Refines p l →
      Refines (loadCmds app rows p).1 (logCmds app rows l).1 ∧
      (loadCmds app rows p).2 = (logCmds app rows l).2
  | [], p, l, h => by simp [loadCmds, logCmds, h]
  | (code, short, nreq, nans) :: r, p, l, h => by
    simp only [loadCmds, logCmds]
    have hc := h.cmd app code
    have hany : (l.cmds.any (fun q => decide (q.1 = app ∧ q.2.code = code))) =
        (lastSome (fun q => decide (q.1 = app ∧ q.2.code = code)) l.cmds).isSome := by
      generalize l.cmds = cs
      induction cs with
      | nil => simp [lastSome]
      | cons x xs ih =>
        simp only [List.any_cons, lastSome, ih]
        cases lastSome (fun q => decide (q.1 = app ∧ q.2.code = code)) xs with
        | some y => simp
        | none => by_cases hx : (x.1 = app ∧ x.2.code = code) <;> simp [hx]
    cases hl : alookup (app, code) p.command with
    | some c =>
      rw [hl] at hc
      have : (lastSome (fun q => decide (q.1 = app ∧ q.2.code = code)) l.cmds).isSome = true := by
        cases hx : lastSome (fun q => decide (q.1 = app ∧ q.2.code = code)) l.cmds with
        | none => rw [hx] at hc; simp at hc
        | some y => rfl
      simp only [hany, this, if_true]
      exact ⟨h, trivial⟩
    | none =>
      rw [hl] at hc
      have : (lastSome (fun q => decide (q.1 = app ∧ q.2.code = code)) l.cmds).isSome = false := by
        cases hx : lastSome (fun q => decide (q.1 = app ∧ q.2.code = code)) l.cmds with
        | none => rfl
        | some y => rw [hx] at hc; simp at hc
      simp only [hany, this, Bool.false_eq_true, if_false]
      apply loadCmds_refines app r
      refine ⟨h.apps, h.code, h.name, ?_⟩
      intro a c
      simp only [alookup, lastSome_append_single]
      rw [h.cmd a c]
      by_cases h1 : app = a ∧ code = c
      · obtain ⟨rfl, rfl⟩ := h1; simp
      · have e1 : ((app, code) == (a, c)) = false := by
          simp; intro ha hc'; exact absurd ⟨ha, hc'⟩ h1
        simp [e1, h1]

theorem loadApps_refines (available : List (Nat × Nat)) :
    ∀ (rows : List AppRow) (p : Parser) (l : Log), Refines p l →
      Refines (loadApps available rows p).1 (logApps available rows l).1 ∧
      (loadApps available rows p).2 = (logApps available rows l).2
  | [], p, l, h => by simp [loadApps, logApps, h]
  | (id, typ, vendors, cmds, avps) :: r, p, l, h => by
    simp only [loadApps, logApps]
    generalize hp0 : ({ p with appcode := (id, { id, typ, vendors }) :: p.appcode, apptype := ((id, typ), { id, typ, vendors }) :: p.apptype } : Parser) = p0
    have h0 : Refines p0 l := by rw [← hp0]; exact ⟨h.apps, h.code, h.name, h.cmd⟩
    obtain ⟨hc1, hc2⟩ := loadCmds_refines id cmds p0 l h0
    cases h1 : loadCmds id cmds p0 with
    | mk p1 b1 =>
      cases h2 : logCmds id cmds l with
      | mk l1 b2 =>
        rw [h1, h2] at hc1 hc2
        simp only [] at hc1 hc2
        subst hc2
        cases b1 with
        | false => exact ⟨hc1, rfl⟩
        | true =>
          simp only []
          obtain ⟨ha1, ha2⟩ := loadAvps_refines available id avps p1 l1 hc1
          cases h3 : loadAvps available id avps p1 with
          | mk p2 b3 =>
            cases h4 : logAvps available id avps l1 with
            | mk l2 b4 =>
              rw [h3, h4] at ha1 ha2
              simp only [] at ha1 ha2
              subst ha2
              cases b3 with
              | false => exact ⟨ha1, rfl⟩
              | true => exact loadApps_refines available r p2 l2 ha1

theorem load_refines (available : List (Nat × Nat)) (p : Parser) (l : Log) (f : FileRow) (h : Refines p l) :
    Refines (p.load available f).1 (logFile available l f).1 ∧
    (p.load available f).2 = (logFile available l f).2 := by
  unfold Parser.load logFile
  apply loadApps_refines
  exact ⟨by simp [h.apps], h.code, h.name, h.cmd⟩

theorem loadAll_refines (available : List (Nat × Nat)) (fs : List FileRow) :
    Refines (Parser.loadAll available fs) (logAll available fs) := by
  unfold Parser.loadAll logAll
  have : ∀ (fs : List FileRow) (p : Parser) (l : Log), Refines p l →
      Refines (fs.foldl (fun p f => (p.load available f).1) p) (fs.foldl (fun l f => (logFile available l f).1) l) := by
    intro fs
    induction fs with
    | nil => intro p l h; exact h
    | cons f r ih => intro p l h; exact ih _ _ (load_refines available p l f h).1
  exact this fs {} {} refines_init

theorem findCode_refines (p : Parser) (l : Log) (parents : List (Nat × Nat)) (h : Refines p l) :
    ∀ fuel app code vendor, p.findCode parents fuel app code vendor = Spec.findCode l parents fuel app code vendor
  | 0, _, _, _ => rfl
  | fuel+1, app, code, vendor => by
    simp only [Parser.findCode, Spec.findCode, h.code]
    cases lastSome (defMatchesCode app code vendor) l.avps with
    | some d => rfl
    | none =>
      simp only []
      by_cases ha : app = 0
      · simp [ha]
      · simp only [ha, if_false]; exact findCode_refines p l parents h fuel _ code vendor

theorem findName_refines (p : Parser) (l : Log) (parents : List (Nat × Nat)) (h : Refines p l) :
    ∀ fuel app name vendor, p.findName parents fuel app name vendor = Spec.findName l parents fuel app name vendor
  | 0, _, _, _ => rfl
  | fuel+1, app, name, vendor => by
    simp only [Parser.findName, Spec.findName, h.name]
    cases lastSome (defMatchesName app name vendor) l.avps with
    | some d => rfl
    | none =>
      simp only []
      by_cases ha : app = 0
      · simp [ha]
      · simp only [ha, if_false]; exact findName_refines p l parents h fuel _ name vendor

theorem findCommand_refines (p : Parser) (l : Log) (h : Refines p l) (app code : Nat) :
    p.findCommand app code = Spec.findCommand l app code := by
  unfold Parser.findCommand Spec.findCommand
  rw [h.cmd app code, h.cmd 0 code]
  cases lastSome (fun q => decide (q.1 = app ∧ q.2.code = code)) l.cmds <;> rfl

end DV
