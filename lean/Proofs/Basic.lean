import Model.Basic
/-! Lemmas about `be`, `rd`, `pad4`. -/
namespace DV

@[simp] theorem be_length (k n : Nat) : (be k n).length = k := by
  induction k with
  | zero => rfl
  | succ k ih => simp [be, ih]

theorem rd_nil : rd [] = 0 := rfl

theorem foldl_rd (bs : Bytes) (a : Nat) :
    bs.foldl (fun acc b => acc * 256 + b.toNat) a = a * 256 ^ bs.length + rd bs := by
  induction bs generalizing a with
  | nil => simp [rd]
  | cons b r ih =>
    simp only [List.foldl_cons, List.length_cons, rd]
    rw [ih, ih (0 * 256 + b.toNat)]
    rw [Nat.pow_succ]
    simp [Nat.add_mul, Nat.mul_assoc, Nat.mul_comm 256, Nat.add_assoc]

theorem rd_cons (b : UInt8) (r : Bytes) : rd (b :: r) = b.toNat * 256 ^ r.length + rd r := by
  simp only [rd, List.foldl_cons]
  have := foldl_rd r (0 * 256 + b.toNat)
  simp only [rd] at this
  rw [this]; simp

theorem rd_lt (bs : Bytes) : rd bs < 256 ^ bs.length := by
  induction bs with
  | nil => simp [rd]
  | cons b r ih =>
    rw [rd_cons, List.length_cons, Nat.pow_succ]
    have hb : b.toNat < 256 := by have := b.toNat_lt; omega
    have : b.toNat * 256 ^ r.length + 256 ^ r.length ≤ 256 * 256 ^ r.length := by
      have : (b.toNat + 1) * 256 ^ r.length ≤ 256 * 256 ^ r.length :=
        Nat.mul_le_mul_right _ (by omega)
      simpa [Nat.add_mul] using this
    rw [Nat.mul_comm (256 ^ r.length)]
    omega

theorem rd_be (k n : Nat) : rd (be k n) = n % 256 ^ k := by
  induction k generalizing n with
  | zero => simp [be, rd, Nat.mod_one]
  | succ k ih =>
    simp only [be]
    rw [rd_cons, be_length, ih]
    have h1 : (UInt8.ofNat (n / 256 ^ k)).toNat = (n / 256 ^ k) % 256 := by simp
    rw [h1, Nat.pow_succ]
    rw [Nat.mod_mul (a := 256 ^ k) (b := 256) (x := n)] 
    rw [Nat.mul_comm (256 ^ k), Nat.add_comm]

theorem be_rd (bs : Bytes) : be bs.length (rd bs) = bs := by
  induction bs with
  | nil => rfl
  | cons b r ih =>
    simp only [List.length_cons, be]
    rw [rd_cons]
    have hr := rd_lt r
    have hpos : 0 < 256 ^ r.length := Nat.pow_pos (by decide)
    have h1 : (b.toNat * 256 ^ r.length + rd r) / 256 ^ r.length = b.toNat := by
      rw [Nat.add_comm, Nat.add_mul_div_right _ _ hpos, Nat.div_eq_of_lt hr]; simp
    rw [h1]
    have h2 : be r.length (b.toNat * 256 ^ r.length + rd r) = be r.length (rd r) := by
      have key : ∀ k m x, be k (x * 256 ^ k + m) = be k m := by
        intro k
        induction k with
        | zero => intros; rfl
        | succ k ihk =>
          intro m x
          simp only [be]
          have hp : 0 < 256 ^ k := Nat.pow_pos (by decide)
          congr 1
          · have : (x * 256 ^ (k+1) + m) / 256 ^ k = x * 256 + m / 256 ^ k := by
              have e : x * 256 ^ (k+1) = (x * 256) * 256 ^ k := by
                rw [Nat.pow_succ, Nat.mul_assoc, Nat.mul_comm (256 ^ k)]
              rw [e, Nat.add_comm, Nat.add_mul_div_right _ _ hp, Nat.add_comm]
            rw [this]
            apply UInt8.toNat_inj.mp
            simp
          · have : x * 256 ^ (k+1) + m = (x * 256) * 256 ^ k + m := by
              rw [Nat.pow_succ, Nat.mul_assoc, Nat.mul_comm (256 ^ k)]
            rw [this]; exact ihk m (x * 256)
      exact key r.length (rd r) b.toNat
    rw [h2, ih]; simp

theorem pad4_mod (n : Nat) : pad4 n % 4 = 0 := by unfold pad4; omega
theorem pad4_ge (n : Nat) : n ≤ pad4 n := by unfold pad4; omega
theorem pad4_lt (n : Nat) : pad4 n < n + 4 := by unfold pad4; omega

end DV
