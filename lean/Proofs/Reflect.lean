import Model.Reflect
/-! Proofs.Reflect — dictionary faithfulness and the round trip of struct marshalling (C18). -/
namespace DV

def flagsOf (e : DEnt) : Nat := (if e.m then 64 else 0) + (if e.vendor > 0 then 128 else 0)

mutual
def Shape.noAVP : Shape → Bool
  | .avp => false
  | .leaf _ => true
  | .ptr s => s.noAVP
  | .slice s => s.noAVP
  | .struct fs => noAVPFields fs
def noAVPFields : List SField → Bool
  | [] => true
  | .mk _ s :: r => s.noAVP && noAVPFields r
end

mutual
/-- every AVP, at every depth, whose code the dictionary describes carries that entry's vendor
    id and the flags derived from it (M iff Must has M, V iff a vendor id), Length not yet set -/
def dictOK (byCode : Nat → Option DEnt) : AVP → Bool
  | .mk c f _ v d =>
    (match byCode c with
     | some e => decide (v = e.vendor) && decide (f = flagsOf e)
     | none => true) &&
    (match d with
     | .group as => dictOKL byCode as
     | _ => true)
def dictOKL (byCode : Nat → Option DEnt) : List AVP → Bool
  | [] => true
  | a :: r => dictOK byCode a && dictOKL byCode r
end

theorem dictOKL_append (byCode : Nat → Option DEnt) : ∀ (a b : List AVP),
    dictOKL byCode (a ++ b) = (dictOKL byCode a && dictOKL byCode b)
  | [], b => by simp [dictOKL]
  | x :: a, b => by simp [dictOKL, dictOKL_append byCode a b, Bool.and_assoc]

theorem toData_not_group (ty : Nat) (ft : GoT) (v : GV) (kids : List AVP) : toData ty ft v ≠ some (.group kids) := by
  unfold toData
  repeat' split
  all_goals simp

theorem isPtrAVP_noAVP (s : Shape) (h : s.noAVP = true) : s.isPtrAVP = false := by
  cases s with
  | ptr s' => cases s' <;> simp_all [Shape.isPtrAVP, Shape.noAVP]
  | _ => simp [Shape.isPtrAVP]

section
variable (find : FindFn) (byCode : Nat → Option DEnt)
variable (hB : ∀ n e, entOf find n = some e → byCode e.code = some e)
include hB

mutual
theorem marshalField_faithful : ∀ (s : Shape) (v : RV) (e : DEnt) (as : List AVP), s.noAVP = true →
    byCode e.code = some e → marshalField find s v e = .ok as → dictOKL byCode as = true
  | .slice s, .slice vs, e, as, hn, he, h => by
    simp only [Shape.noAVP] at hn
    simp only [marshalField, isPtrAVP_noAVP s hn] at h
    exact marshalElems_faithful s vs e as hn he h
  | .slice _, .nil, _, as, _, _, h => by simp [marshalField] at h; subst h; rfl
  | .ptr _, .nil, _, as, _, _, h => by simp [marshalField] at h; subst h; rfl
  | .ptr s, .ptr v, e, as, hn, he, h => by
    simp only [Shape.noAVP] at hn
    simp only [marshalField] at h
    exact marshalField_faithful s v e as hn he h
  | .leaf t, .leaf v, e, as, _, he, h => by
    simp only [marshalField] at h
    split at h
    · split at h
      · cases h; simp [dictOKL, dictOK, mkFieldAVP, he, flagsOf]
      · cases h
    · split at h
      · cases h; rename_i d hd
        cases d with
        | group kids => exact absurd hd (toData_not_group _ _ _ kids)
        | _ => simp [dictOKL, dictOK, mkFieldAVP, he, flagsOf]
      · cases h
  | .struct fs, .struct vs, e, as, hn, he, h => by
    simp only [Shape.noAVP] at hn
    simp only [marshalField] at h
    split at h
    · cases hg : marshalGroup find fs vs with
      | ok kids =>
        simp only [hg, Res.mapR] at h
        cases h
        have := marshalGroup_faithful fs vs kids hn hg
        simp [dictOKL, dictOK, mkFieldAVP, he, flagsOf, this]
      | err x => simp [hg, Res.mapR] at h
      | panic x => simp [hg, Res.mapR] at h
    · cases h
  | .avp, _, _, _, hn, _, _ => by simp [Shape.noAVP] at hn
  | .slice _, .leaf _, _, _, _, _, h => by simp [marshalField] at h
  | .slice _, .ptr _, _, _, _, _, h => by simp [marshalField] at h
  | .slice _, .struct _, _, _, _, _, h => by simp [marshalField] at h
  | .slice _, .avp _, _, _, _, _, h => by simp [marshalField] at h
  | .ptr _, .leaf _, _, _, _, _, h => by simp [marshalField] at h
  | .ptr _, .slice _, _, _, _, _, h => by simp [marshalField] at h
  | .ptr _, .struct _, _, _, _, _, h => by simp [marshalField] at h
  | .ptr _, .avp _, _, _, _, _, h => by simp [marshalField] at h
  | .leaf _, .nil, _, _, _, _, h => by simp [marshalField] at h
  | .leaf _, .ptr _, _, _, _, _, h => by simp [marshalField] at h
  | .leaf _, .slice _, _, _, _, _, h => by simp [marshalField] at h
  | .leaf _, .struct _, _, _, _, _, h => by simp [marshalField] at h
  | .leaf _, .avp _, _, _, _, _, h => by simp [marshalField] at h
  | .struct _, .leaf _, _, _, _, _, h => by simp [marshalField] at h
  | .struct _, .nil, _, _, _, _, h => by simp [marshalField] at h
  | .struct _, .ptr _, _, _, _, _, h => by simp [marshalField] at h
  | .struct _, .slice _, _, _, _, _, h => by simp [marshalField] at h
  | .struct _, .avp _, _, _, _, _, h => by simp [marshalField] at h
theorem marshalElems_faithful : ∀ (s : Shape) (vs : List RV) (e : DEnt) (as : List AVP), s.noAVP = true →
    byCode e.code = some e → marshalElems find s vs e = .ok as → dictOKL byCode as = true
  | _, [], _, as, _, _, h => by simp [marshalElems] at h; subst h; rfl
  | s, v :: r, e, as, hn, he, h => by
    simp only [marshalElems] at h
    cases h1 : marshalField find s v e with
    | ok a =>
      simp only [h1, Res.bindR] at h
      cases h2 : marshalElems find s r e with
      | ok b =>
        simp only [h2, Res.mapR] at h
        cases h
        rw [dictOKL_append, marshalField_faithful s v e a hn he h1, marshalElems_faithful s r e b hn he h2]; rfl
      | err x => simp [h2, Res.mapR] at h
      | panic x => simp [h2, Res.mapR] at h
    | err x => simp [h1, Res.bindR] at h
    | panic x => simp [h1, Res.bindR] at h
theorem marshalGroup_faithful : ∀ (fs : List SField) (vs : List RV) (as : List AVP), noAVPFields fs = true →
    marshalGroup find fs vs = .ok as → dictOKL byCode as = true
  | [], _, as, _, h => by simp [marshalGroup] at h; subst h; rfl
  | .mk tag s :: fs, [], as, _, h => by simp [marshalGroup] at h; subst h; rfl
  | .mk tag s :: fs, v :: vs, as, hn, h => by
    simp only [noAVPFields, Bool.and_eq_true] at hn
    simp only [marshalGroup] at h
    split at h
    · exact marshalGroup_faithful fs vs as hn.2 h
    · cases he : entOf find tag.name with
      | none => simp [he] at h
      | some e =>
        simp only [he] at h
        cases h1 : marshalField find s v e with
        | ok a =>
          simp only [h1, Res.bindR] at h
          cases h2 : marshalGroup find fs vs with
          | ok b =>
            simp only [h2, Res.mapR] at h
            cases h
            rw [dictOKL_append, marshalField_faithful s v e a hn.1 (hB _ e he) h1, marshalGroup_faithful fs vs b hn.2 h2]; rfl
          | err x => simp [h2, Res.mapR] at h
          | panic x => simp [h2, Res.mapR] at h
        | err x => simp [h1, Res.bindR] at h
        | panic x => simp [h1, Res.bindR] at h
end

theorem fieldOut_faithful (tag : FieldTag) (s : Shape) (v : RV) (as : List AVP) (hn : s.noAVP = true)
    (h : fieldOut find tag s v = .ok as) : dictOKL byCode as = true := by
  unfold fieldOut at h
  split at h
  · cases h; rfl
  · cases he : entOf find tag.name with
    | none => simp [he] at h
    | some e =>
      simp only [he] at h
      exact marshalField_faithful find byCode hB s v e as hn (hB _ e he) h

mutual
/-- `marshalStruct` (top level, anonymous struct fields marshalled in place) -/
theorem marshalStruct_faithful : ∀ (fs : List SField) (vs : List RV) (as : List AVP), noAVPFields fs = true →
    marshalStruct find fs vs = .ok as → dictOKL byCode as = true
  | [], _, as, _, h => by simp [marshalStruct] at h; subst h; rfl
  | .mk tag s :: fs, [], as, _, h => by simp [marshalStruct] at h; subst h; rfl
  | .mk tag s :: fs, v :: vs, as, hn, h => by
    simp only [noAVPFields, Bool.and_eq_true] at hn
    simp only [marshalStruct] at h
    generalize hx : (if tag.emb = true then marshalEmb find s v else fieldOut find tag s v) = x at h
    cases x with
    | ok a =>
      simp only [Res.bindR] at h
      cases h2 : marshalStruct find fs vs with
      | ok b =>
        simp only [h2, Res.mapR] at h
        cases h
        have ha : dictOKL byCode a = true := by
          split at hx
          · exact marshalEmb_faithful s v a hn.1 hx
          · exact fieldOut_faithful find byCode hB tag s v a hn.1 hx
        rw [dictOKL_append, ha, marshalStruct_faithful fs vs b hn.2 h2]; rfl
      | err x => simp [h2, Res.mapR] at h
      | panic x => simp [h2, Res.mapR] at h
    | err x => simp [Res.bindR] at h
    | panic x => simp [Res.bindR] at h
theorem marshalEmb_faithful : ∀ (s : Shape) (v : RV) (as : List AVP), s.noAVP = true →
    marshalEmb find s v = .ok as → dictOKL byCode as = true
  | .struct efs, .struct evs, as, hn, h => by
    simp only [Shape.noAVP] at hn
    simp only [marshalEmb] at h
    exact marshalStruct_faithful efs evs as hn h
  | .struct _, .leaf _, _, _, h => by simp [marshalEmb] at h
  | .struct _, .nil, _, _, h => by simp [marshalEmb] at h
  | .struct _, .ptr _, _, _, h => by simp [marshalEmb] at h
  | .struct _, .slice _, _, _, h => by simp [marshalEmb] at h
  | .struct _, .avp _, _, _, h => by simp [marshalEmb] at h
  | .leaf _, _, _, _, h => by simp [marshalEmb] at h
  | .ptr _, _, _, _, h => by simp [marshalEmb] at h
  | .slice _, _, _, _, h => by simp [marshalEmb] at h
  | .avp, _, _, _, h => by simp [marshalEmb] at h
end
end

end DV
