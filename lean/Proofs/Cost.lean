import Model.Cost
/-! Proofs.Cost — bounds for the cost model (C03, resources). -/
namespace DV

/-- read piecewise, a body never has more than one piece reserved beyond what has arrived -/
theorem bodyReserved_chunked (chunk l s : Nat) (hc : 0 < chunk) :
    bodyReserved chunk l s ≤ max 1024 (s + chunk) := by
  unfold bodyReserved
  split
  · omega
  · split
    · rename_i h; rcases h with h | h <;> omega
    · have h1 : s / chunk * chunk ≤ s := Nat.div_mul_le_self s chunk
      have h2 : (s / chunk + 1) * chunk = s / chunk * chunk + chunk := by rw [Nat.add_mul]; simp
      have : min l ((s / chunk + 1) * chunk) ≤ (s / chunk + 1) * chunk := Nat.min_le_right _ _
      omega

/-- without piecewise reading the reservation is the declared length, whatever arrives -/
theorem bodyReserved_unchunked (l s : Nat) (hl : 1024 < l) : bodyReserved 0 l s = l := by
  unfold bodyReserved
  have : ¬ l ≤ 1024 := by omega
  simp [this]

theorem nest_len : ∀ n, (nest n).len = 12 + 8 * n
  | 0 => by simp [nest, AVP.len, Val.len, hdrLen, hasV, fixW, T.u32, T.f64, T.i64, T.u64]
  | n+1 => by
    have ih := nest_len n
    have h8 : hdrLen 64 = 8 := by decide
    simp only [nest, AVP.len, Val.len, lenL, h8, ih]
    omega

theorem nest_depth : ∀ n, (nest n).depth = n
  | 0 => by simp [nest, AVP.depth, Val.depth]
  | n+1 => by simp [nest, AVP.depth, Val.depth, depthL, nest_depth n]

/-- serialising `n` nested groups writes more than n²·4 bytes: quadratic in the depth, for an
    input that is linear in it -/
theorem nest_copyCost : ∀ n, 4 * n * n ≤ (nest n).copyCost
  | 0 => by simp
  | n+1 => by
    have ih := nest_copyCost n
    have hl := nest_len n
    have hl1 := nest_len (n + 1)
    simp only [nest, AVP.copyCost, Val.copyCost, costL, lenL] at *
    have e : 4 * (n + 1) * (n + 1) = 4 * n * n + 8 * n + 4 := by
      simp only [Nat.mul_add, Nat.add_mul, Nat.mul_one, Nat.one_mul]; omega
    rw [e]
    omega

end DV
