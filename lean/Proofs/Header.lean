import Proofs.Basic
import Model.Codec
/-! Header codec round trip. -/
namespace DV

/-- `DecodeHeader (Header.Serialize h) = h` for every in-range header -/
theorem header_roundtrip (h : Header) (hv : h.version < 256) (hl : h.len < 16777216) (hf : h.flags < 256)
    (hc : h.cmd < 16777216) (ha : h.app < 4294967296) (hh : h.hbh < 4294967296) (he : h.e2e < 4294967296) :
    decodeHeader h.enc = .ok h := by
  have hlen : h.enc.length = 20 := by simp [Header.enc]
  unfold decodeHeader
  simp only [hlen, Nat.lt_irrefl, if_false]
  have e1 : (h.enc.drop 1).take 3 = be 3 h.len := by
    simp [Header.enc, List.take_append_of_le_length]
  have e5 : (h.enc.drop 5).take 3 = be 3 h.cmd := by
    simp [Header.enc, be, List.take_append_of_le_length]
  have e8 : (h.enc.drop 8).take 4 = be 4 h.app := by
    simp [Header.enc, be, List.take_append_of_le_length]
  have e12 : (h.enc.drop 12).take 4 = be 4 h.hbh := by
    simp [Header.enc, be, List.take_append_of_le_length]
  have e16 : (h.enc.drop 16).take 4 = be 4 h.e2e := by
    simp [Header.enc, be]
  have e0 : (h.enc.getD 0 0).toNat = h.version := by
    simp [Header.enc]; omega
  have e4 : (h.enc.getD 4 0).toNat = h.flags := by
    simp [Header.enc, be]; omega
  rw [e1, e5, e8, e12, e16, e0, e4]
  simp only [rd_be]
  have : (256:Nat) ^ 3 = 16777216 := by decide
  have : (256:Nat) ^ 4 = 4294967296 := by decide
  cases h
  simp_all [Nat.mod_eq_of_lt]


theorem header_enc_length (h : Header) : h.enc.length = 20 := by simp [Header.enc]

end DV
