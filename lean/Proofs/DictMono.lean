import Proofs.Dict
/-! Loading more dictionaries never makes anything unresolvable (C17 c). -/
namespace DV

/-- `p'` extends `p`: every index of `p'` is that of `p` with newer entries in front -/
structure Ext (p p' : Parser) : Prop where
  avpcode : ∃ x, p'.avpcode = x ++ p.avpcode
  avpname : ∃ x, p'.avpname = x ++ p.avpname
  command : ∃ x, p'.command = x ++ p.command
  appcode : ∃ x, p'.appcode = x ++ p.appcode
  apptype : ∃ x, p'.apptype = x ++ p.apptype

theorem Ext.refl (p : Parser) : Ext p p := ⟨⟨[], rfl⟩, ⟨[], rfl⟩, ⟨[], rfl⟩, ⟨[], rfl⟩, ⟨[], rfl⟩⟩

theorem Ext.trans {p q r : Parser} (h1 : Ext p q) (h2 : Ext q r) : Ext p r := by
  obtain ⟨⟨a1, ha1⟩, ⟨b1, hb1⟩, ⟨c1, hc1⟩, ⟨d1, hd1⟩, ⟨e1, he1⟩⟩ := h1
  obtain ⟨⟨a2, ha2⟩, ⟨b2, hb2⟩, ⟨c2, hc2⟩, ⟨d2, hd2⟩, ⟨e2, he2⟩⟩ := h2
  exact ⟨⟨a2 ++ a1, by rw [ha2, ha1, List.append_assoc]⟩, ⟨b2 ++ b1, by rw [hb2, hb1, List.append_assoc]⟩,
    ⟨c2 ++ c1, by rw [hc2, hc1, List.append_assoc]⟩, ⟨d2 ++ d1, by rw [hd2, hd1, List.append_assoc]⟩,
    ⟨e2 ++ e1, by rw [he2, he1, List.append_assoc]⟩⟩

theorem alookup_ext [BEq κ] (k : κ) (x L : List (κ × ν)) (h : (alookup k L).isSome) :
    (alookup k (x ++ L)).isSome := by
  induction x with
  | nil => exact h
  | cons e r ih =>
    obtain ⟨k', v⟩ := e
    simp only [List.cons_append, alookup]
    split
    · rfl
    · exact ih

theorem loadAvps_ext (available : List (Nat × Nat)) (app : Nat) :
    ∀ (rows : List AvpRow) (p : Parser), Ext p (loadAvps available app rows p).1
  | [], p => by simp [loadAvps]; exact Ext.refl p
  | (name, code, vendor, must, tyName, items) :: r, p => by
    simp only [loadAvps]
    generalize hp0 : ({ p with avpname := ((app, name, UndefinedVendorID), ({ name, code, vendor, must, tyName, items, ty := (resolveType available tyName).getD 0, app } : AvpDef)) :: ((app, name, vendor), { name, code, vendor, must, tyName, items, ty := (resolveType available tyName).getD 0, app }) :: p.avpname, avpcode := ((app, code, UndefinedVendorID), { name, code, vendor, must, tyName, items, ty := (resolveType available tyName).getD 0, app }) :: ((app, code, vendor), { name, code, vendor, must, tyName, items, ty := (resolveType available tyName).getD 0, app }) :: p.avpcode } : Parser) = p0
    have h0 : Ext p p0 := by
      rw [← hp0]
      exact ⟨⟨[_, _], rfl⟩, ⟨[_, _], rfl⟩, ⟨[], rfl⟩, ⟨[], rfl⟩, ⟨[], rfl⟩⟩
    cases resolveType available tyName with
    | none => exact h0
    | some t => exact Ext.trans h0 (loadAvps_ext available app r p0)

theorem loadCmds_ext (app : Nat) : ∀ (rows : List CmdRow) (p : Parser), Ext p (loadCmds app rows p).1
  | [], p => by simp [loadCmds]; exact Ext.refl p
  | (code, short, nreq, nans) :: r, p => by
    simp only [loadCmds]
    cases alookup (app, code) p.command with
    | some c => exact Ext.refl p
    | none =>
      simp only []
      generalize hp0 : ({ p with command := ((app, code), ({ code, short, nreq, nans } : CmdDef)) :: p.command } : Parser) = p0
      have h0 : Ext p p0 := by
        rw [← hp0]; exact ⟨⟨[], rfl⟩, ⟨[], rfl⟩, ⟨[_], rfl⟩, ⟨[], rfl⟩, ⟨[], rfl⟩⟩
      exact Ext.trans h0 (loadCmds_ext app r p0)

theorem loadApps_ext (available : List (Nat × Nat)) : ∀ (rows : List AppRow) (p : Parser), Ext p (loadApps available rows p).1
  | [], p => by simp [loadApps]; exact Ext.refl p
  | (id, typ, vendors, cmds, avps) :: r, p => by
    simp only [loadApps]
    generalize hp0 : ({ p with appcode := (id, { id, typ, vendors }) :: p.appcode, apptype := ((id, typ), { id, typ, vendors }) :: p.apptype } : Parser) = p0
    have h0 : Ext p p0 := by
      rw [← hp0]; exact ⟨⟨[], rfl⟩, ⟨[], rfl⟩, ⟨[], rfl⟩, ⟨[_], rfl⟩, ⟨[_], rfl⟩⟩
    have h1 := loadCmds_ext id cmds p0
    cases hc : loadCmds id cmds p0 with
    | mk p1 b1 =>
      rw [hc] at h1
      cases b1 with
      | false => exact Ext.trans h0 h1
      | true =>
        simp only []
        have h2 := loadAvps_ext available id avps p1
        cases ha : loadAvps available id avps p1 with
        | mk p2 b2 =>
          rw [ha] at h2
          cases b2 with
          | false => exact Ext.trans h0 (Ext.trans h1 h2)
          | true => exact Ext.trans h0 (Ext.trans h1 (Ext.trans h2 (loadApps_ext available r p2)))

theorem load_ext (available : List (Nat × Nat)) (p : Parser) (f : FileRow) : Ext p (p.load available f).1 := by
  unfold Parser.load
  dsimp only
  generalize hp0 : ({ p with apps := p.apps ++ f.map (fun (id, typ, vendors, _, _) => ({ id, typ, vendors } : AppInfo)) } : Parser) = p0
  have h0 : Ext p p0 := by
    rw [← hp0]; exact ⟨⟨[], rfl⟩, ⟨[], rfl⟩, ⟨[], rfl⟩, ⟨[], rfl⟩, ⟨[], rfl⟩⟩
  exact Ext.trans h0 (loadApps_ext available f p0)

theorem findCode_mono (p p' : Parser) (h : Ext p p') (parents : List (Nat × Nat)) :
    ∀ fuel app code vendor, (p.findCode parents fuel app code vendor).isSome →
      (p'.findCode parents fuel app code vendor).isSome
  | 0, _, _, _, hh => by simp [Parser.findCode] at hh
  | fuel+1, app, code, vendor, hh => by
    obtain ⟨x, hx⟩ := h.avpcode
    simp only [Parser.findCode] at hh ⊢
    cases h1 : alookup (app, code, vendor) p.avpcode with
    | some d =>
      have := alookup_ext (app, code, vendor) x p.avpcode (by rw [h1]; rfl)
      rw [← hx] at this
      cases h2 : alookup (app, code, vendor) p'.avpcode with
      | some d' => rfl
      | none => rw [h2] at this; cases this
    | none =>
      rw [h1] at hh
      simp only [] at hh
      cases h2 : alookup (app, code, vendor) p'.avpcode with
      | some d' => rfl
      | none =>
        simp only []
        by_cases ha : app = 0
        · simp [ha] at hh
        · simp only [ha, if_false] at hh ⊢
          exact findCode_mono p p' h parents fuel _ code vendor hh

theorem findName_mono (p p' : Parser) (h : Ext p p') (parents : List (Nat × Nat)) :
    ∀ fuel app name vendor, (p.findName parents fuel app name vendor).isSome →
      (p'.findName parents fuel app name vendor).isSome
  | 0, _, _, _, hh => by simp [Parser.findName] at hh
  | fuel+1, app, name, vendor, hh => by
    obtain ⟨x, hx⟩ := h.avpname
    simp only [Parser.findName] at hh ⊢
    cases h1 : alookup (app, name, vendor) p.avpname with
    | some d =>
      have := alookup_ext (app, name, vendor) x p.avpname (by rw [h1]; rfl)
      rw [← hx] at this
      cases h2 : alookup (app, name, vendor) p'.avpname with
      | some d' => rfl
      | none => rw [h2] at this; cases this
    | none =>
      rw [h1] at hh
      simp only [] at hh
      cases h2 : alookup (app, name, vendor) p'.avpname with
      | some d' => rfl
      | none =>
        simp only []
        by_cases ha : app = 0
        · simp [ha] at hh
        · simp only [ha, if_false] at hh ⊢
          exact findName_mono p p' h parents fuel _ name vendor hh

theorem lookup_mono [BEq κ] (k : κ) (L L' : List (κ × ν)) (h : ∃ x, L' = x ++ L)
    (hs : (alookup k L).isSome) : (alookup k L').isSome := by
  obtain ⟨x, hx⟩ := h; rw [hx]; exact alookup_ext k x L hs

theorem findCommand_mono (p p' : Parser) (h : Ext p p') (app code : Nat)
    (hh : (p.findCommand app code).isSome) : (p'.findCommand app code).isSome := by
  unfold Parser.findCommand at hh ⊢
  cases h1 : alookup (app, code) p.command with
  | some c =>
    have := lookup_mono (app, code) _ _ h.command (by rw [h1]; rfl)
    cases h2 : alookup (app, code) p'.command with
    | some c' => rfl
    | none => rw [h2] at this; cases this
  | none =>
    rw [h1] at hh
    simp only [] at hh
    have := lookup_mono (0, code) _ _ h.command hh
    cases h2 : alookup (app, code) p'.command with
    | some c' => rfl
    | none => exact this

/-- whenever an application id is indexed, so is its (id, type) pair -/
def AppCons (p : Parser) : Prop :=
  ∀ code a, alookup code p.appcode = some a → (alookup (code, a.typ) p.apptype).isSome

theorem app_mono (p p' : Parser) (h : Ext p p') (hc : AppCons p) (code : Nat) (typ : Option Nat)
    (hh : (p.app code typ).isSome) : (p'.app code typ).isSome := by
  cases typ with
  | none => exact lookup_mono code _ _ h.appcode hh
  | some t =>
    simp only [Parser.app] at hh ⊢
    -- whatever happens first in p', the type-less entry remains as a last resort
    have key : (alookup (code, t) p.apptype).isSome ∨ (alookup (code, 0) p.apptype).isSome := by
      cases h1 : alookup (code, t) p.apptype with
      | some a => exact Or.inl rfl
      | none =>
        rw [h1] at hh
        simp only [] at hh
        cases h2 : alookup code p.appcode with
        | none => rw [h2] at hh; exact Or.inr hh
        | some a =>
          rw [h2] at hh
          simp only [] at hh
          by_cases ht : a.typ = 0 ∨ a.typ = t
          · have := hc code a h2
            rcases ht with ht | ht
            · rw [ht] at this; exact Or.inr this
            · rw [ht, h1] at this; cases this
          · simp only [ht, if_false] at hh; exact Or.inr hh
    rcases key with k1 | k0
    · have := lookup_mono (code, t) _ _ h.apptype k1
      cases h3 : alookup (code, t) p'.apptype with
      | some a => rfl
      | none => rw [h3] at this; cases this
    · have k0' := lookup_mono (code, 0) _ _ h.apptype k0
      cases h3 : alookup (code, t) p'.apptype with
      | some a => rfl
      | none =>
        simp only []
        cases h4 : alookup code p'.appcode with
        | none => exact k0'
        | some a =>
          simp only []
          by_cases ht : a.typ = 0 ∨ a.typ = t
          · simp [ht]
          · simp only [ht, if_false]; exact k0'

theorem loadAvps_apps (available : List (Nat × Nat)) (app : Nat) : ∀ (rows : List AvpRow) (p : Parser),
    (loadAvps available app rows p).1.appcode = p.appcode ∧ (loadAvps available app rows p).1.apptype = p.apptype
  | [], p => by simp [loadAvps]
  | (name, code, vendor, must, tyName, items) :: r, p => by
    simp only [loadAvps]
    cases resolveType available tyName with
    | none => exact ⟨rfl, rfl⟩
    | some t =>
      have := loadAvps_apps available app r ({ p with avpname := ((app, name, UndefinedVendorID), ({ name, code, vendor, must, tyName, items, ty := (some t).getD 0, app } : AvpDef)) :: ((app, name, vendor), { name, code, vendor, must, tyName, items, ty := (some t).getD 0, app }) :: p.avpname, avpcode := ((app, code, UndefinedVendorID), { name, code, vendor, must, tyName, items, ty := (some t).getD 0, app }) :: ((app, code, vendor), { name, code, vendor, must, tyName, items, ty := (some t).getD 0, app }) :: p.avpcode } : Parser)
      exact this

theorem loadCmds_apps (app : Nat) : ∀ (rows : List CmdRow) (p : Parser),
    (loadCmds app rows p).1.appcode = p.appcode ∧ (loadCmds app rows p).1.apptype = p.apptype
  | [], p => by simp [loadCmds]
  | (code, short, nreq, nans) :: r, p => by
    simp only [loadCmds]
    cases alookup (app, code) p.command with
    | some c => exact ⟨rfl, rfl⟩
    | none => exact loadCmds_apps app r _

theorem loadApps_cons (available : List (Nat × Nat)) : ∀ (rows : List AppRow) (p : Parser),
    AppCons p → AppCons (loadApps available rows p).1
  | [], p, h => by simpa [loadApps] using h
  | (id, typ, vendors, cmds, avps) :: r, p, h => by
    simp only [loadApps]
    generalize hp0 : ({ p with appcode := (id, { id, typ, vendors }) :: p.appcode, apptype := ((id, typ), { id, typ, vendors }) :: p.apptype } : Parser) = p0
    have h0 : AppCons p0 := by
      rw [← hp0]
      intro code a ha
      simp only [alookup] at ha ⊢
      by_cases hid : id = code
      · subst hid
        simp at ha; subst ha; simp
      · have e : (id == code) = false := by simp [hid]
        rw [e] at ha
        simp only [Bool.false_eq_true, if_false] at ha
        have := h code a ha
        split
        · rfl
        · exact this
    have hc := loadCmds_apps id cmds p0
    cases hl : loadCmds id cmds p0 with
    | mk p1 b1 =>
      rw [hl] at hc
      have h1 : AppCons p1 := by
        intro code a ha; rw [hc.1] at ha; rw [hc.2]; exact h0 code a ha
      cases b1 with
      | false => exact h1
      | true =>
        simp only []
        have ha := loadAvps_apps available id avps p1
        cases hl2 : loadAvps available id avps p1 with
        | mk p2 b2 =>
          rw [hl2] at ha
          have h2 : AppCons p2 := by
            intro code a hh; rw [ha.1] at hh; rw [ha.2]; exact h1 code a hh
          cases b2 with
          | false => exact h2
          | true => exact loadApps_cons available r p2 h2

theorem load_cons (available : List (Nat × Nat)) (p : Parser) (f : FileRow) (h : AppCons p) :
    AppCons (p.load available f).1 := by
  unfold Parser.load
  exact loadApps_cons available f _ h

theorem loadAll_cons (available : List (Nat × Nat)) (fs : List FileRow) : AppCons (Parser.loadAll available fs) := by
  unfold Parser.loadAll
  have : ∀ (fs : List FileRow) (p : Parser), AppCons p → AppCons (fs.foldl (fun p f => (p.load available f).1) p) := by
    intro fs
    induction fs with
    | nil => intro p h; exact h
    | cons f r ih => intro p h; exact ih _ (load_cons available p f h)
  exact this fs {} (by intro code a h; simp [alookup] at h)

theorem loadAll_snoc (available : List (Nat × Nat)) (fs : List FileRow) (f : FileRow) :
    Parser.loadAll available (fs ++ [f]) = ((Parser.loadAll available fs).load available f).1 := by
  simp [Parser.loadAll, List.foldl_append]

end DV
