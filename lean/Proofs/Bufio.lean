import Model.Bufio
/-! `response.Write` over the connection's `bufio.Writer`, and the retry loop on top of it. -/
namespace DV

/-- a writer in its normal state: nothing buffered, no error -/
def BW.healthy (st : BW) : Prop := st.err = none ∧ st.buf = []

theorem twrite_cases (p : Bytes) (os : List Outcome) :
    (∃ os', twrite p os = ((p.length, none), os')) ∨
    (∃ k e os', twrite p os = ((k, some e), os') ∧ k ≤ p.length) := by
  cases os with
  | nil => exact Or.inl ⟨[], by rw [twrite]⟩
  | cons o os =>
    rw [twrite]
    cases ho : o.err with
    | none => exact Or.inl ⟨os, rfl⟩
    | some e => exact Or.inr ⟨min o.k p.length, e, os, rfl, Nat.min_le_right _ _⟩

theorem BW.eta_err (st : BW) (h : st.err = none) : { st with err := none } = st := by
  cases st; simp_all
theorem BW.eta_buf (st : BW) (h : st.buf = []) : { st with buf := [] } = st := by
  cases st; simp_all

theorem write_sticky (f : Nat) (st : BW) (e : EK) (he : st.err = some e) (p : Bytes) (os : List Outcome) :
    BW.write (f+1) st p os = (0, { st := st, os := os }) := by
  rw [BW.write]
  have h1 : ¬ (p.length > st.size - st.buf.length ∧ st.err = none) := by
    intro h; rw [he] at h; exact absurd h.2 (by simp)
  have h2 : st.err ≠ none := by rw [he]; simp
  rw [if_neg h1, if_pos h2]

theorem write_small (f : Nat) (st : BW) (herr : st.err = none) (hbuf : st.buf = []) (p : Bytes)
    (hp : p.length ≤ st.size) (os : List Outcome) :
    BW.write (f+1) st p os = (p.length, { st := { st with buf := p }, os := os }) := by
  rw [BW.write]
  have h1 : ¬ (p.length > st.size - st.buf.length ∧ st.err = none) := by
    rw [hbuf]; simp; omega
  have h2 : ¬ st.err ≠ none := by rw [herr]; simp
  rw [if_neg h1, if_neg h2, hbuf, List.nil_append]

theorem write_big (f : Nat) (st : BW) (herr : st.err = none) (hbuf : st.buf = []) (p : Bytes)
    (hp : p.length > st.size) (os : List Outcome) :
    BW.write (f+2) st p os =
      ((twrite p os).1.1 + (BW.write (f+1) { st with err := (twrite p os).1.2 } (p.drop (twrite p os).1.1) (twrite p os).2).1,
       { (BW.write (f+1) { st with err := (twrite p os).1.2 } (p.drop (twrite p os).1.1) (twrite p os).2).2 with
         acc := p.take (twrite p os).1.1 :: (BW.write (f+1) { st with err := (twrite p os).1.2 } (p.drop (twrite p os).1.1) (twrite p os).2).2.acc }) := by
  rw [BW.write]
  have h1 : p.length > st.size - st.buf.length ∧ st.err = none := by
    rw [hbuf]; exact ⟨by simpa using hp, herr⟩
  have h2 : st.buf.length = 0 := by rw [hbuf]; rfl
  rw [if_pos h1, if_pos h2]

theorem flush_healthy_nonempty (st : BW) (herr : st.err = none) (hne : st.buf ≠ []) (os : List Outcome) :
    st.flush os =
      match (twrite st.buf os).1.2 with
      | none => { st := { st with buf := [] }, os := (twrite st.buf os).2, acc := [st.buf] }
      | some e => { st := { st with buf := st.buf.drop (twrite st.buf os).1.1, err := some e }, os := (twrite st.buf os).2,
                    acc := [st.buf.take (twrite st.buf os).1.1] } := by
  unfold BW.flush
  rw [herr]
  have : ¬ st.buf.length = 0 := fun h => hne (List.eq_nil_of_length_eq_zero h)
  simp only [this, if_false]
  cases h : (twrite st.buf os).1.2 <;> simp [h]

theorem flush_healthy_empty (st : BW) (herr : st.err = none) (hb : st.buf = []) (os : List Outcome) :
    st.flush os = { st := st, os := os } := by
  unfold BW.flush
  rw [herr]
  simp [hb]

/-- once a transport write has failed the writer refuses everything without touching the
    transport -/
theorem respWrite_sticky (st : BW) (e : EK) (he : st.err = some e) (p : Bytes) (os : List Outcome) :
    respWrite st p os = ((0, some e), { st := st, os := os, acc := [] }) := by
  unfold respWrite
  rw [write_sticky p.length st e he]
  simp only [he]

/-- a healthy writer: the transport is given the message or a prefix of it, exactly once; the
    call succeeds iff it was all of it, and then the writer is healthy again; otherwise the
    writer is left in the sticky state -/
theorem respWrite_healthy (st : BW) (h : st.healthy) (p : Bytes) (os : List Outcome) :
    (∃ os', respWrite st p os = ((p.length, none), { st := st, os := os', acc := if p = [] then [] else [p] })) ∨
    (∃ k e os' buf', k ≤ p.length ∧
      respWrite st p os = ((0, some e), { st := { st with buf := buf', err := some e }, os := os', acc := [p.take k] })) := by
  obtain ⟨herr, hbuf⟩ := h
  obtain ⟨size, buf, err⟩ := st
  simp only at herr hbuf
  subst herr hbuf
  unfold respWrite
  by_cases hbig : p.length > size
  · -- written directly from p
    have hfuel : p.length + 1 = (p.length - 1) + 2 := by omega
    rw [hfuel, write_big _ _ rfl rfl p hbig os]
    have hne : p ≠ [] := by intro h0; rw [h0] at hbig; simp at hbig
    rcases twrite_cases p os with ⟨os', ht⟩ | ⟨k, e, os', ht, hk⟩
    · left
      refine ⟨os', ?_⟩
      rw [ht]
      dsimp only
      rw [List.drop_length, write_small _ _ rfl rfl [] (by simp) os']
      dsimp only
      rw [flush_healthy_empty _ rfl rfl]
      simp [hne]
    · right
      refine ⟨k, e, os', [], hk, ?_⟩
      rw [ht]
      dsimp only
      rw [write_sticky _ _ e rfl]
  · -- buffered, then flushed
    rw [write_small _ _ rfl rfl p (by simpa using hbig) os]
    dsimp only
    by_cases hp : p = []
    · left
      refine ⟨os, ?_⟩
      subst hp
      rw [flush_healthy_empty _ rfl rfl]
      simp
    · rw [flush_healthy_nonempty _ rfl hp os]
      dsimp only
      rcases twrite_cases p os with ⟨os', ht⟩ | ⟨k, e, os', ht, hk⟩
      · left
        refine ⟨os', ?_⟩
        rw [ht]
        simp [hp]
      · right
        refine ⟨k, e, os', p.drop k, hk, ?_⟩
        rw [ht]
        simp

/-- retries on a writer in the sticky state change nothing -/
theorem connWriteRetry_sticky (r : Nat) (st : BW) (e : EK) (he : st.err = some e) (b : Bytes) (os : List Outcome) :
    (connWriteRetry r st b os).accepted = [] ∧ (connWriteRetry r st b os).st = st ∧
    (connWriteRetry r st b os).os = os ∧ (connWriteRetry r st b os).err = some e ∧ (connWriteRetry r st b os).n = 0 := by
  induction r generalizing b with
  | zero =>
    rw [connWriteRetry, respWrite_sticky st e he]
    simp
  | succ r ih =>
    rw [connWriteRetry, respWrite_sticky st e he]
    by_cases hp : e = .perm
    · simp [hp]
    · have := ih b
      simp only [hp, if_false, List.drop_zero]
      obtain ⟨h1, h2, h3, h4, h5⟩ := this
      exact ⟨by simp [h1], h2, h3, h4, by simp [h5]⟩

/-- `WriteToWithRetry` on a `diam.Conn` whose writer is healthy: for every message image, retry
    budget and transport behaviour, the transport is given a prefix of the message, once;
    a nil error means it was given all of it, the count is its length and the writer is healthy
    again; an error leaves the writer refusing everything from then on, so the incomplete
    message is the last thing the transport ever receives from this connection. -/
theorem connWriteRetry_spec (r : Nat) (st : BW) (h : st.healthy) (b : Bytes) (os : List Outcome) :
    let res := connWriteRetry r st b os
    (∃ k, k ≤ b.length ∧ res.accepted.flatten = b.take k) ∧
    (res.err = none → res.accepted.flatten = b ∧ res.n = b.length ∧ res.st.healthy) ∧
    (res.err ≠ none → res.st.err ≠ none) := by
  intro res
  have hres : res = connWriteRetry r st b os := rfl
  rcases respWrite_healthy st h b os with ⟨os', hw⟩ | ⟨k, e, os', buf', hk, hw⟩
  · have : res = { st := st, os := os', accepted := (if b = [] then [] else [b]), attempts := 1, n := b.length, err := none } := by
      rw [hres]; cases r <;> rw [connWriteRetry, hw]
    rw [this]
    refine ⟨⟨b.length, Nat.le_refl _, ?_⟩, ?_, ?_⟩
    · by_cases hb : b = [] <;> simp [hb]
    · intro _
      refine ⟨?_, rfl, h⟩
      by_cases hb : b = [] <;> simp [hb]
    · intro hne; simp at hne
  · cases r with
    | zero =>
      have : res = { st := { st with buf := buf', err := some e }, os := os', accepted := [b.take k], attempts := 1, n := 0, err := some e } := by
        rw [hres, connWriteRetry, hw]
      rw [this]
      exact ⟨⟨k, hk, by simp⟩, by intro h0; simp at h0, by intro _; simp⟩
    | succ r =>
      by_cases hp : e = .perm
      · have : res = { st := { st with buf := buf', err := some e }, os := os', accepted := [b.take k], attempts := 1, n := 0, err := some e } := by
          rw [hres, connWriteRetry, hw]; simp [hp]
        rw [this]
        exact ⟨⟨k, hk, by simp⟩, by intro h0; simp at h0, by intro _; simp⟩
      · have hs := connWriteRetry_sticky r { st with buf := buf', err := some e } e rfl b os'
        obtain ⟨s1, s2, s3, s4, s5⟩ := hs
        have hacc : res.accepted = [b.take k] := by
          rw [hres, connWriteRetry, hw]; simp only [hp, if_false, List.drop_zero]; rw [s1]; rfl
        have herr : res.err = some e := by
          rw [hres, connWriteRetry, hw]; simp only [hp, if_false, List.drop_zero]; exact s4
        have hst : res.st = { st with buf := buf', err := some e } := by
          rw [hres, connWriteRetry, hw]; simp only [hp, if_false, List.drop_zero]; exact s2
        refine ⟨⟨k, hk, by rw [hacc]; simp⟩, ?_, ?_⟩
        · intro h0; rw [herr] at h0; cases h0
        · intro _; rw [hst]; simp

end DV
