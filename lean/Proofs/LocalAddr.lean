import Model.LocalAddr
namespace DV

/-- whatever is advertised is an address of the endpoint -/
theorem localAddrs_sound (hosts : List HostEntry) (as : List Bytes)
    (h : getLocalAddresses true hosts = some as) : ∀ a ∈ as, HostEntry.ip a ∈ hosts := by
  unfold getLocalAddresses at h
  simp only [not_true_eq_false, if_false] at h
  have hmem : ∀ b, b ∈ hosts.filterMap HostEntry.addr? → HostEntry.ip b ∈ hosts := by
    intro b hb
    rw [List.mem_filterMap] at hb
    obtain ⟨e, he, hea⟩ := hb
    cases e with
    | ip x => simp only [HostEntry.addr?, Option.some.injEq] at hea; rw [← hea]; exact he
    | unparseable => cases hea
  split at h
  · split at h
    · rename_i l hl
      simp only [Option.some.injEq] at h
      subst h
      intro a ha
      simp only [List.mem_singleton] at ha
      subst ha
      have := List.mem_of_getLast? hl
      exact hmem a (List.mem_filter.mp this).1
    · simp only [Option.some.injEq] at h
      subst h; intro a ha; cases ha
  · simp only [Option.some.injEq] at h
    subst h
    intro a ha
    exact hmem a (List.mem_filter.mp ha).1

/-- an endpoint with at least one parseable address (and a port that parses) is advertised with
    at least one Host-IP-Address -/
theorem localAddrs_nonempty (hosts : List HostEntry) (b : Bytes) (hb : HostEntry.ip b ∈ hosts) :
    ∃ as, getLocalAddresses true hosts = some as ∧ as ≠ [] := by
  unfold getLocalAddresses
  simp only [not_true_eq_false, if_false]
  have hin : b ∈ hosts.filterMap HostEntry.addr? := by
    rw [List.mem_filterMap]; exact ⟨.ip b, hb, rfl⟩
  split
  · rename_i hne
    -- no non-loopback address: b is a loopback address, so the loopback list is not empty
    have hbl : isLoopbackIP b = true := by
      cases hl : isLoopbackIP b with
      | true => rfl
      | false =>
        have : b ∈ (hosts.filterMap HostEntry.addr?).filter (fun b => ¬ isLoopbackIP b) := by
          rw [List.mem_filter]; exact ⟨hin, by simp [hl]⟩
        rw [List.isEmpty_iff] at hne
        rw [hne] at this; cases this
    have hmem : b ∈ (hosts.filterMap HostEntry.addr?).filter isLoopbackIP := by
      rw [List.mem_filter]; exact ⟨hin, hbl⟩
    cases hg : ((hosts.filterMap HostEntry.addr?).filter isLoopbackIP).getLast? with
    | some l => exact ⟨[l], rfl, by simp⟩
    | none =>
      rw [List.getLast?_eq_none_iff] at hg
      rw [hg] at hmem; cases hmem
  · rename_i hne
    refine ⟨_, rfl, ?_⟩
    intro h0
    apply hne
    rw [h0]; rfl

/-- a loopback address is advertised only when the endpoint has nothing else -/
theorem localAddrs_loopback_last_resort (hosts : List HostEntry) (as : List Bytes) (a : Bytes)
    (h : getLocalAddresses true hosts = some as) (ha : a ∈ as) (hl : isLoopbackIP a = true) :
    ∀ b, HostEntry.ip b ∈ hosts → isLoopbackIP b = true := by
  unfold getLocalAddresses at h
  simp only [not_true_eq_false, if_false] at h
  split at h
  · rename_i hne
    intro b hb
    cases hbl : isLoopbackIP b with
    | true => rfl
    | false =>
      have : b ∈ (hosts.filterMap HostEntry.addr?).filter (fun b => ¬ isLoopbackIP b) := by
        rw [List.mem_filter]
        exact ⟨List.mem_filterMap.mpr ⟨.ip b, hb, rfl⟩, by simp [hbl]⟩
      rw [List.isEmpty_iff] at hne
      rw [hne] at this; cases this
  · simp only [Option.some.injEq] at h
    subst h
    have := (List.mem_filter.mp ha).2
    simp [hl] at this

end DV
