import Model.Codec
import Spec.Frame
import Proofs.Basic
/-! Lemmas about `Model.Codec`: slice guards, a panic-free normal form of `decodeAVP`. -/
namespace DV

/-- forget the message of an error (errors are compared by class only) -/
def Res.cls : Res α → Res α
  | .err _ => .err ""
  | r => r

@[simp] theorem Res.cls_ok (a : α) : (Res.ok a : Res α).cls = .ok a := rfl
@[simp] theorem Res.cls_err (e : String) : (Res.err e : Res α).cls = .err "" := rfl
@[simp] theorem Res.cls_panic (e : String) : (Res.panic e : Res α).cls = .panic e := rfl

theorem slice_ok (b : Bytes) (lo hi : Nat) (h1 : lo ≤ hi) (h2 : hi ≤ b.length) :
    slice b lo hi = .ok ((b.drop lo).take (hi - lo)) := by
  simp [slice, h1, h2]

theorem sliceFrom_ok (b : Bytes) (lo : Nat) (h : lo ≤ b.length) : sliceFrom b lo = .ok (b.drop lo) := by
  simp [sliceFrom, h]

theorem hasV_iff (f : Nat) (h : f < 256) : hasV f = true ↔ f ≥ 128 := by
  unfold hasV; simp; omega

theorem byte_lt (b : Bytes) (i : Nat) : (b.getD i 0).toNat < 256 := by
  have := (b.getD i 0).toNat_lt; omega

theorem take_drop_take (l : Bytes) (n a k : Nat) (h : a + k ≤ n) :
    ((l.take n).drop a).take k = (l.drop a).take k := by
  rw [List.drop_take, List.take_take]
  congr 1; omega

/-- the payload extent handed to the data decoder -/
def payloadOf (data : Bytes) (flags length : Nat) : Bytes := (data.take length).drop (hdrLen flags)

/-- `decodeAVP` without its slicing primitives: every slice is inside bounds on every path. -/
theorem decodeAVP_nf (ty : Nat → Nat → Nat) (fuel : Nat) (data : Bytes) :
    decodeAVP ty (fuel+1) data =
      if data.length < 8 then .err "avp-header-short" else
      let code := rd (data.take 4)
      let flags := (data.getD 4 0).toNat
      let length := rd ((data.drop 5).take 3)
      if data.length < length then .err "avp-not-enough-data" else
      if length < 8 then .err "avp-header-short" else
      if hasV flags ∧ length < 12 then .err "avp-vendor-short" else
      decodePayload ty fuel code flags length
        (if hasV flags then rd ((data.drop 8).take 4) else 0) (payloadOf data flags length) := by
  unfold decodeAVP decodePayload
  generalize (data.getD 4 0).toNat = flags
  generalize hl : rd ((data.drop 5).take 3) = length
  generalize rd (data.take 4) = code
  by_cases h1 : data.length < 8
  · simp [h1]
  simp only [h1, if_false]
  by_cases h2 : data.length < length
  · simp [h2]
  simp only [h2, if_false]
  have hlen : (data.take length).length = length := by
    rw [List.length_take]; omega
  rw [hlen]
  by_cases h3 : length < 8
  · simp [h3]
  simp only [h3, if_false]
  by_cases hv : hasV flags = true
  · simp only [hv, if_true, true_and]
    by_cases h4 : length < 12
    · simp [h4]
    simp only [h4, if_false]
    rw [slice_ok _ 8 12 (by omega) (by rw [hlen]; omega), sliceFrom_ok _ 12 (by rw [hlen]; omega)]
    simp only [payloadOf, hdrLen, hv, if_true]
    rw [take_drop_take _ _ 8 4 (by omega)]
  · simp only [hv, Bool.false_eq_true, if_false, false_and]
    rw [sliceFrom_ok _ 8 (by rw [hlen]; omega)]
    simp only [payloadOf, hdrLen, hv, Bool.false_eq_true, if_false]

theorem decodeLeaf_noPanic (t : Nat) (p : Bytes) : (decodeLeaf t p).isPanic = false := by
  unfold decodeLeaf
  dsimp only
  repeat' split
  all_goals rfl

/-- which value shapes the data decoder can return for a type id -/
theorem decodeLeaf_shape (t : Nat) (p : Bytes) (v : Val) (h : decodeLeaf t p = .ok v) :
    (v = .str t p ∧ (t = T.unknown ∨ t = T.ident ∨ t = T.uri ∨ t = T.ipfilter ∨ t = T.octets ∨ t = T.qos ∨ t = T.utf8)) ∨
    ((∃ b, v = .addr b) ∧ t = T.address) ∨
    ((∃ n, v = .fix t n) ∧ (t = T.enum ∨ t = T.f32 ∨ t = T.i32 ∨ t = T.u32 ∨ t = T.f64 ∨ t = T.i64 ∨ t = T.u64)) ∨
    ((∃ b, v = .ip4 b ∧ b.length = 4) ∧ t = T.ipv4) ∨
    ((∃ b, v = .ip6 b ∧ b.length = 16) ∧ t = T.ipv6) ∨
    ((∃ u, v = .time u) ∧ t = T.time) := by
  unfold decodeLeaf at h
  by_cases h1 : (t = T.unknown ∨ t = T.ident ∨ t = T.uri ∨ t = T.ipfilter ∨ t = T.octets ∨ t = T.qos ∨ t = T.utf8)
  · simp only [h1, if_true, Res.ok.injEq] at h
    exact Or.inl ⟨h.symm, h1⟩
  simp only [h1, if_false] at h
  by_cases h2 : t = T.address
  · simp only [h2, if_true] at h
    refine Or.inr (Or.inl ⟨?_, h2⟩)
    repeat' split at h
    all_goals (first | (cases h; done) | (simp only [Res.ok.injEq] at h; exact ⟨_, h.symm⟩))
  simp only [h2, if_false] at h
  by_cases h3 : (t = T.enum ∨ t = T.f32 ∨ t = T.i32 ∨ t = T.u32)
  · simp only [h3, if_true, Res.ok.injEq] at h
    refine Or.inr (Or.inr (Or.inl ⟨⟨_, h.symm⟩, ?_⟩))
    rcases h3 with h | h | h | h <;> simp [h]
  simp only [h3, if_false] at h
  by_cases h4 : (t = T.f64 ∨ t = T.i64 ∨ t = T.u64)
  · simp only [h4, if_true, Res.ok.injEq] at h
    refine Or.inr (Or.inr (Or.inl ⟨⟨_, h.symm⟩, ?_⟩))
    rcases h4 with h | h | h <;> simp [h]
  simp only [h4, if_false] at h
  by_cases h5 : t = T.ipv4
  · simp only [h5, if_true, Res.ok.injEq] at h
    refine Or.inr (Or.inr (Or.inr (Or.inl ⟨⟨_, h.symm, ?_⟩, h5⟩)))
    split <;> simp_all
  simp only [h5, if_false] at h
  by_cases h6 : t = T.ipv6
  · simp only [h6, if_true, Res.ok.injEq] at h
    refine Or.inr (Or.inr (Or.inr (Or.inr (Or.inl ⟨⟨_, h.symm, ?_⟩, h6⟩))))
    split <;> simp_all [zeros]
  simp only [h6, if_false] at h
  by_cases h7 : t = T.time
  · simp only [h7, if_true] at h
    refine Or.inr (Or.inr (Or.inr (Or.inr (Or.inr ⟨?_, h7⟩))))
    repeat' split at h
    all_goals (simp only [Res.ok.injEq] at h; exact ⟨_, h.symm⟩)
  simp only [h7, if_false] at h
  cases h

theorem decodePayload_unfold (ty : Nat → Nat → Nat) (fuel code flags length vendor : Nat) (payload : Bytes) :
    decodePayload ty fuel code flags length vendor payload =
      if ty code vendor = T.grouped then
        (decodeAVPs ty fuel payload).mapR (fun as => AVP.mk code flags length vendor (.group as))
      else
        (decodeLeaf (ty code vendor) payload).mapR (fun v => AVP.mk code flags length vendor v) := by
  rw [decodePayload, decodePayloadWith]

theorem decodeAVPs_zero (ty : Nat → Nat → Nat) (b : Bytes) :
    decodeAVPs ty 0 b = if b.isEmpty then .ok [] else .err "fuel" := by
  rw [decodeAVPs]

theorem decodeAVPs_succ (ty : Nat → Nat → Nat) (fuel : Nat) (b : Bytes) :
    decodeAVPs ty (fuel+1) b =
      if b.isEmpty then .ok [] else
      (decodeAVP ty fuel b).bindR (fun a =>
        (decodeAVPs ty fuel (b.drop (pad4 a.length))).mapR (fun r => a :: r)) := by
  rw [decodeAVPs]

theorem decodeAVP_zero (ty : Nat → Nat → Nat) (b : Bytes) : decodeAVP ty 0 b = .err "fuel" := by
  rw [decodeAVP]

theorem decodePayload_noPanic (ty : Nat → Nat → Nat) (fuel c f l v : Nat) (p : Bytes)
    (h : ∀ b, (decodeAVPs ty fuel b).isPanic = false) :
    (decodePayload ty fuel c f l v p).isPanic = false := by
  rw [decodePayload_unfold]
  by_cases hg : ty c v = T.grouped
  · simp only [hg, if_true]
    have := h p
    revert this
    cases decodeAVPs ty fuel p <;> simp [Res.isPanic, Res.mapR]
  · simp only [hg, if_false]
    have := decodeLeaf_noPanic (ty c v) p
    revert this
    cases decodeLeaf (ty c v) p <;> simp [Res.isPanic, Res.mapR]

/-- C03 (a), the decoder half: no path through the AVP decoder panics. -/
theorem decode_noPanic (ty : Nat → Nat → Nat) : ∀ fuel : Nat,
    (∀ data, (decodeAVP ty fuel data).isPanic = false) ∧
    (∀ b, (decodeAVPs ty fuel b).isPanic = false)
  | 0 => by
    constructor
    · intro data; rw [decodeAVP_zero]; rfl
    · intro b; rw [decodeAVPs_zero]; split <;> rfl
  | fuel+1 => by
    have ih := decode_noPanic ty fuel
    constructor
    · intro data
      rw [decodeAVP_nf]
      dsimp only
      generalize (data.getD 4 0).toNat = flags
      generalize rd ((data.drop 5).take 3) = length
      generalize rd (data.take 4) = code
      by_cases h1 : data.length < 8
      · simp [h1, Res.isPanic]
      by_cases h2 : data.length < length
      · simp [h1, h2, Res.isPanic]
      by_cases h3 : length < 8
      · simp [h1, h2, h3, Res.isPanic]
      by_cases h4 : hasV flags = true ∧ length < 12
      · simp [h1, h2, h3, h4, Res.isPanic]
      simp only [h1, h2, h3, h4, if_false]
      exact decodePayload_noPanic ty fuel _ _ _ _ _ ih.2
    · intro b
      rw [decodeAVPs_succ]
      by_cases he : b.isEmpty = true
      · simp [he, Res.isPanic]
      simp only [he, Bool.false_eq_true, if_false]
      have h1 := ih.1 b
      revert h1
      cases h : decodeAVP ty fuel b with
      | ok a =>
        intro _
        simp only [Res.bindR]
        have h2 := ih.2 (b.drop (pad4 a.length))
        revert h2
        cases decodeAVPs ty fuel (b.drop (pad4 a.length)) <;> simp [Res.isPanic, Res.mapR]
      | err e => intro _; rfl
      | panic p => simp [Res.isPanic]

end DV
