import Model.SM
import Spec.SMSpec
/-! `CER.Parse` accepts exactly when the Spec's condition holds; rejection codes apply (C11). -/
namespace DV
open DV.Spec

theorem validate_spec (appOK : Nat → Nat → Bool) (typ : Nat) (a : AVP) :
    ((validate appOK typ a).2 ≠ [] ↔ validApp appOK typ a = true) ∧
    ((validate appOK typ a).1.2 = none ↔ validApp appOK typ a = true) ∧
    ((validate appOK typ a).1.2 = some .unexpected → notU32 a.data = true) ∧
    ((validate appOK typ a).1.2 ≠ some .missingHost ∧ (validate appOK typ a).1.2 ≠ some .missingRealm ∧
      (validate appOK typ a).1.2 ≠ some .noCommonSecurity) := by
  cases a with
  | mk c f l v d =>
    cases d with
    | fix t n =>
      simp only [validate, validApp, AVP.data_mk, notU32]
      by_cases ht : t = T.u32
      · by_cases hn : n = 4294967295
        · simp [ht, hn]
        · by_cases ho : appOK n typ = true
          · simp [ht, hn, ho]
          · simp [ht, hn, ho]
      · simp [ht]
    | _ => simp [validate, validApp, notU32]

theorem chooseErr_found (cur : VRes) (found : Bool) (new : VRes) :
    (chooseErr cur found new).2 = (found || new.2.isNone) := by
  unfold chooseErr
  by_cases h : new.2.isNone = true
  · simp [h]
  · simp only [h, Bool.false_eq_true, if_false]
    split <;> simp [h]

/-- the error kept by `chooseErr` is the current one or the new one -/
theorem chooseErr_src (cur : VRes) (found : Bool) (new : VRes) :
    (chooseErr cur found new).1 = cur ∨ ((chooseErr cur found new).1 = new ∧ new.2 ≠ none) := by
  unfold chooseErr
  by_cases h : new.2.isNone = true
  · simp [h]
  · simp only [h, Bool.false_eq_true, if_false]
    have : new.2 ≠ none := by intro e; rw [e] at h; simp at h
    split
    · exact Or.inr ⟨rfl, this⟩
    · exact Or.inl rfl

/-- an error class `P` that holds of the current error and of every new error holds of the result -/
theorem chooseErr_pres (P : Option PErr → Prop) (cur : VRes) (found : Bool) (new : VRes)
    (hc : P cur.2) (hn : new.2 ≠ none → P new.2) : P (chooseErr cur found new).1.2 := by
  rcases chooseErr_src cur found new with h | ⟨h, hne⟩
  · rw [h]; exact hc
  · rw [h]; exact hn hne

theorem vaLoop_spec (appOK : Nat → Nat → Bool) (typ : Nat) :
    ∀ (l : List AVP) (c : VRes) (f : Bool) (ids : List Nat),
      (vaLoop appOK typ l c f ids).2.1 = (f || l.any (validApp appOK typ)) ∧
      ((vaLoop appOK typ l c f ids).2.2 = [] ↔ (ids = [] ∧ l.any (validApp appOK typ) = false))
  | [], c, f, ids => by simp [vaLoop]
  | a :: r, c, f, ids => by
    simp only [vaLoop, List.any_cons]
    have hv := validate_spec appOK typ a
    have ih := vaLoop_spec appOK typ r (chooseErr c f (validate appOK typ a).1).1
      (chooseErr c f (validate appOK typ a).1).2 (ids ++ (validate appOK typ a).2)
    simp only [chooseErr_found] at ih ⊢
    constructor
    · rw [ih.1]
      by_cases hvalid : validApp appOK typ a = true
      · have : (validate appOK typ a).1.2 = none := hv.2.1.mpr hvalid
        simp [hvalid, this]
      · have : (validate appOK typ a).1.2.isNone = false := by
          cases hr : (validate appOK typ a).1.2 with
          | none => exact absurd (hv.2.1.mp hr) hvalid
          | some e => rfl
        simp [hvalid, this]
    · rw [ih.2]
      by_cases hvalid : validApp appOK typ a = true
      · have : (validate appOK typ a).2 ≠ [] := hv.1.mpr hvalid
        simp [hvalid, this]
      · have : (validate appOK typ a).2 = [] := by
          cases hi : (validate appOK typ a).2 with
          | nil => rfl
          | cons x xs => exact absurd (hv.1.mp (by rw [hi]; simp)) hvalid
        simp [hvalid, this]

/-- every error `vaLoop` can end with satisfies a class that the start and all validate errors satisfy -/
theorem vaLoop_pres (appOK : Nat → Nat → Bool) (typ : Nat) (P : Option PErr → Prop) :
    ∀ (l : List AVP) (c : VRes) (f : Bool) (ids : List Nat), P c.2 →
      (∀ a ∈ l, (validate appOK typ a).1.2 ≠ none → P (validate appOK typ a).1.2) →
      P (vaLoop appOK typ l c f ids).1.2
  | [], c, f, ids, hc, _ => by simpa [vaLoop] using hc
  | a :: r, c, f, ids, hc, hl => by
    simp only [vaLoop]
    apply vaLoop_pres appOK typ P r
    · exact chooseErr_pres P c f _ hc (hl a (by simp))
    · intro b hb; exact hl b (by simp [hb])

/-- with nothing valid in a non-empty list, the loop ends with an error -/
theorem vaLoop_err (appOK : Nat → Nat → Bool) (typ : Nat) :
    ∀ (l : List AVP) (c : VRes) (f : Bool) (ids : List Nat), l.any (validApp appOK typ) = false →
      (c.2 ≠ none ∨ l ≠ []) → (vaLoop appOK typ l c f ids).1.2 ≠ none
  | [], c, f, ids, _, h => by
    rcases h with h | h
    · simpa [vaLoop] using h
    · exact absurd rfl h
  | a :: r, c, f, ids, hl, _ => by
    simp only [List.any_cons, Bool.or_eq_false_iff] at hl
    simp only [vaLoop]
    apply vaLoop_err appOK typ r _ _ _ hl.2
    left
    have hv := (validate_spec appOK typ a).2.1
    have hne : (validate appOK typ a).1.2 ≠ none := fun hh => by
      have := hv.mp hh; rw [hl.1] at this; cases this
    unfold chooseErr
    have : (validate appOK typ a).1.2.isNone = false := by
      cases hx : (validate appOK typ a).1.2 with
      | none => exact absurd hx hne
      | some e => rfl
    simp only [this, Bool.false_eq_true, if_false]
    split
    · exact hne
    · rename_i h'
      simp only [not_or] at h'
      intro hc
      exact h'.1 (by rw [hc]; rfl)

theorem validateAll_spec (appOK : Nat → Nat → Bool) (typ : Nat) (avps : List AVP) :
    ((validateAll appOK typ avps).1.2 = none ↔ avps.any (validApp appOK typ) = true) ∧
    ((validateAll appOK typ avps).2 = [] ↔ avps.any (validApp appOK typ) = false) := by
  unfold validateAll
  by_cases he : avps.isEmpty = true
  · have : avps = [] := List.isEmpty_iff.mp he
    simp [this]
  · simp only [he, Bool.false_eq_true, if_false]
    have h := vaLoop_spec appOK typ avps (false, none) false []
    simp only [Bool.false_or, true_and] at h
    by_cases hf : (vaLoop appOK typ avps (false, none) false []).2.1 = true
    · simp only [hf, if_true]
      exact ⟨by simp [← h.1, hf], h.2⟩
    · have hf' : (vaLoop appOK typ avps (false, none) false []).2.1 = false := by simpa using hf
      simp only [hf', Bool.false_eq_true, if_false]
      have hany : avps.any (validApp appOK typ) = false := by rw [← h.1, hf']
      refine ⟨?_, h.2⟩
      rw [hany]
      constructor
      · intro hn
        have hne : avps ≠ [] := fun e => he (by rw [e]; rfl)
        exact absurd hn (vaLoop_err appOK typ avps (false, none) false [] hany (Or.inr hne))
      · intro hh; cases hh

/-- a valid application id inside the group makes `handleGroup` succeed and collect an id;
    ids are collected only for valid members -/
def memberValid (appOK : Nat → Nat → Bool) (k : AVP) : Bool :=
  (k.code == C.acctApp && validApp appOK 2 k) || (k.code == C.authApp && validApp appOK 1 k)

theorem memberRes_spec (appOK : Nat → Nat → Bool) (c : VRes) (k : AVP) :
    ((memberRes appOK c k).2 ≠ [] ↔ memberValid appOK k = true) ∧
    (memberValid appOK k = true → (memberRes appOK c k).1.2 = none) := by
  unfold memberRes memberValid
  by_cases h1 : k.code = C.acctApp
  · have hv := validate_spec appOK 2 k
    have hne : ¬ k.code = C.authApp := by rw [h1]; decide
    simp only [h1, if_true, beq_self_eq_true, Bool.true_and]
    have : (C.acctApp == C.authApp) = false := by decide
    simp only [this, Bool.false_and, Bool.or_false]
    exact ⟨hv.1, hv.2.1.mpr⟩
  · by_cases h2 : k.code = C.authApp
    · have hv := validate_spec appOK 1 k
      have : (C.authApp == C.acctApp) = false := by decide
      simp only [h1, if_false, h2, if_true, this, Bool.false_and, Bool.false_or, beq_self_eq_true, Bool.true_and]
      exact ⟨hv.1, hv.2.1.mpr⟩
    · have e1 : (k.code == C.acctApp) = false := by simp [h1]
      have e2 : (k.code == C.authApp) = false := by simp [h2]
      simp [h1, h2, e1, e2]

theorem hgLoop_spec (appOK : Nat → Nat → Bool) :
    ∀ (l : List AVP) (c : VRes) (s : Bool) (ids : List Nat),
      ((hgLoop appOK l c s ids).2.2 = [] ↔ (ids = [] ∧ l.any (memberValid appOK) = false)) ∧
      (s = true ∨ l.any (memberValid appOK) = true → (hgLoop appOK l c s ids).2.1 = true)
  | [], c, s, ids => by simp [hgLoop]
  | k :: r, c, s, ids => by
    simp only [hgLoop, List.any_cons]
    have hm := memberRes_spec appOK c k
    have ih := hgLoop_spec appOK r (memberRes appOK c k).1 (s || (memberRes appOK c k).1.2.isNone) (ids ++ (memberRes appOK c k).2)
    constructor
    · rw [ih.1]
      by_cases hv : memberValid appOK k = true
      · have : (memberRes appOK c k).2 ≠ [] := hm.1.mpr hv
        simp [hv, this]
      · have : (memberRes appOK c k).2 = [] := by
          cases hi : (memberRes appOK c k).2 with
          | nil => rfl
          | cons x xs => exact absurd (hm.1.mp (by rw [hi]; simp)) hv
        simp [hv, this]
    · intro h
      apply ih.2
      rcases h with h | h
      · left; simp [h]
      · by_cases hv : memberValid appOK k = true
        · left; simp [hm.2 hv]
        · right
          simp only [Bool.or_eq_true] at h
          rcases h with h | h
          · exact absurd h hv
          · exact h

/-- does the Vendor-Specific-Application-Id AVP `g` contain a valid application id? -/
def groupValid (appOK : Nat → Nat → Bool) (g : AVP) : Bool :=
  match g.data with
  | .group kids => kids.any (memberValid appOK)
  | _ => false

theorem handleGroup_spec (appOK : Nat → Nat → Bool) (g : AVP) :
    ((handleGroup appOK g).2 = [] ↔ groupValid appOK g = false) ∧
    (groupValid appOK g = true → (handleGroup appOK g).1.2 = none) := by
  unfold handleGroup groupValid
  cases g with
  | mk c f l v d =>
    cases d with
    | group kids =>
      simp only [AVP.data_mk]
      have h := hgLoop_spec appOK kids (false, none) false []
      constructor
      · by_cases hs : (hgLoop appOK kids (false, none) false []).2.1 = true
        · simp only [hs, if_true]; rw [h.1]; simp
        · simp only [hs, Bool.false_eq_true, if_false]; rw [h.1]; simp
      · intro hv
        have := h.2 (Or.inr hv)
        simp [this]
    | _ => simp

theorem vsLoop_spec (appOK : Nat → Nat → Bool) :
    ∀ (l : List AVP) (c : VRes) (f : Bool) (ids : List Nat),
      ((vsLoop appOK l c f ids).2.2 = [] ↔ (ids = [] ∧ l.any (groupValid appOK) = false)) ∧
      (f = true ∨ l.any (groupValid appOK) = true → (vsLoop appOK l c f ids).2.1 = true)
  | [], c, f, ids => by simp [vsLoop]
  | g :: r, c, f, ids => by
    simp only [vsLoop, List.any_cons]
    have hg := handleGroup_spec appOK g
    have ih := vsLoop_spec appOK r (chooseErr c f (handleGroup appOK g).1).1 (chooseErr c f (handleGroup appOK g).1).2
      (ids ++ (handleGroup appOK g).2)
    simp only [chooseErr_found] at ih ⊢
    constructor
    · rw [ih.1]
      by_cases hv : groupValid appOK g = true
      · have : (handleGroup appOK g).2 ≠ [] := by
          intro e; have := hg.1.mp e; rw [hv] at this; cases this
        simp [hv, this]
      · have hv' : groupValid appOK g = false := by simpa using hv
        simp [hv', hg.1.mpr hv']
    · intro h
      apply ih.2
      rcases h with h | h
      · left; simp [h]
      · by_cases hv : groupValid appOK g = true
        · left; simp [hg.2 hv]
        · right
          simp only [Bool.or_eq_true] at h
          rcases h with h | h
          · exact absurd h hv
          · exact h

theorem chooseErr_keeps (cur : VRes) (found : Bool) (new : VRes) (h : cur.2 ≠ none) :
    (chooseErr cur found new).1.2 ≠ none := by
  rcases chooseErr_src cur found new with e | ⟨e, hne⟩
  · rw [e]; exact h
  · rw [e]; exact hne

theorem vsLoop_keeps (appOK : Nat → Nat → Bool) :
    ∀ (l : List AVP) (c : VRes) (f : Bool) (ids : List Nat), c.2 ≠ none → (vsLoop appOK l c f ids).1.2 ≠ none
  | [], c, f, ids, h => by simpa [vsLoop] using h
  | g :: r, c, f, ids, h => by
    simp only [vsLoop]
    exact vsLoop_keeps appOK r _ _ _ (chooseErr_keeps c f _ h)

theorem hasCommonApp_eq (appOK : Nat → Nat → Bool) (as : List AVP) :
    hasCommonApp appOK as =
      ((allOf C.acctApp as).any (validApp appOK 2) || (allOf C.authApp as).any (validApp appOK 1) ||
       (allOf C.vsa as).any (groupValid appOK)) := by
  unfold hasCommonApp groupValid memberValid
  rfl

/-- `Application.Parse` returns no error exactly when some application AVP is valid -/
theorem appParse_spec (appOK : Nat → Nat → Bool) (as : List AVP) :
    ((appParse appOK (allOf C.acctApp as) (allOf C.authApp as) (allOf C.vsa as)).1 = none ↔
      hasCommonApp appOK as = true) ∧
    ((appParse appOK (allOf C.acctApp as) (allOf C.authApp as) (allOf C.vsa as)).2 = [] ↔
      hasCommonApp appOK as = false) := by
  rw [hasCommonApp_eq]
  unfold appParse
  have h1 := validateAll_spec appOK 2 (allOf C.acctApp as)
  have h2 := validateAll_spec appOK 1 (allOf C.authApp as)
  generalize validateAll appOK 2 (allOf C.acctApp as) = r1 at h1 ⊢
  generalize validateAll appOK 1 (allOf C.authApp as) = r2 at h2 ⊢
  have hf2 := chooseErr_found r1.1 r1.1.2.isNone r2.1
  have h3 := vsLoop_spec appOK (allOf C.vsa as) (chooseErr r1.1 r1.1.2.isNone r2.1).1 (chooseErr r1.1 r1.1.2.isNone r2.1).2 []
  have hk := vsLoop_keeps appOK (allOf C.vsa as) (chooseErr r1.1 r1.1.2.isNone r2.1).1 (chooseErr r1.1 r1.1.2.isNone r2.1).2 []
  generalize vsLoop appOK (allOf C.vsa as) (chooseErr r1.1 r1.1.2.isNone r2.1).1 (chooseErr r1.1 r1.1.2.isNone r2.1).2 [] = r3 at h3 hk ⊢
  generalize (allOf C.acctApp as).any (validApp appOK 2) = A at h1 ⊢
  generalize (allOf C.authApp as).any (validApp appOK 1) = B at h2 ⊢
  generalize (allOf C.vsa as).any (groupValid appOK) = V at h3 ⊢
  simp only [true_and] at h3
  have hids : (r1.2 ++ r2.2 ++ r3.2.2 = []) ↔ (A = false ∧ B = false ∧ V = false) := by
    simp only [List.append_eq_nil_iff]
    rw [h1.2, h2.2, h3.1]
    constructor
    · intro ⟨⟨a, b⟩, c⟩; exact ⟨a, b, c⟩
    · intro ⟨a, b, c⟩; exact ⟨⟨a, b⟩, c⟩
  have hfound : (A = true ∨ B = true ∨ V = true) → r3.2.1 = true := by
    intro h
    apply h3.2
    rcases h with h | h | h
    · left; rw [hf2]; have := h1.1.mpr h; simp [this]
    · left; rw [hf2]; have := h2.1.mpr h; simp [this]
    · right; exact h
  unfold appParseOf
  by_cases hf : r3.2.1 = true
  · simp only [hf, not_true_eq_false, if_false]
    by_cases hi : (r1.2 ++ r2.2 ++ r3.2.2).isEmpty = true
    · have hx : r1.2 ++ r2.2 ++ r3.2.2 = [] := List.isEmpty_iff.mp hi
      have := hids.mp hx
      simp [hi, hx, this.1, this.2.1, this.2.2]
    · have hx : ¬ (r1.2 ++ r2.2 ++ r3.2.2 = []) := fun e => hi (by rw [e]; rfl)
      have hv : ¬ (A = false ∧ B = false ∧ V = false) := fun e => hx (hids.mpr e)
      simp only [hi, Bool.false_eq_true, if_false, true_iff]
      refine ⟨?_, ?_⟩
      · cases A <;> cases B <;> cases V <;> simp_all
      · constructor
        · intro e; exact absurd e hx
        · intro e; exfalso; apply hv; cases A <;> cases B <;> cases V <;> simp_all
  · have hf' : r3.2.1 = false := by simpa using hf
    have hnv : A = false ∧ B = false ∧ V = false := by
      refine ⟨?_, ?_, ?_⟩
      · cases hA : A with
        | false => rfl
        | true => exact absurd (hfound (Or.inl hA)) hf
      · cases hB : B with
        | false => rfl
        | true => exact absurd (hfound (Or.inr (Or.inl hB))) hf
      · cases hV : V with
        | false => rfl
        | true => exact absurd (hfound (Or.inr (Or.inr hV))) hf
    have hr1 : r1.1.2 ≠ none := fun e => by
      have := h1.1.mp e; rw [hnv.1] at this; cases this
    have hr3 : r3.1.2 ≠ none := hk (chooseErr_keeps r1.1 _ r2.1 hr1)
    simp only [hf', Bool.false_eq_true, not_false_eq_true, if_true, hnv.1, hnv.2.1, hnv.2.2, Bool.or_self]
    constructor
    · constructor
      · intro e; exact absurd e hr3
      · intro e; cases e
    · constructor
      · intro _; trivial
      · intro _; exact hids.mpr hnv

end DV

namespace DV
open DV.Spec

/-- error classes that `Application.Parse` can produce for the application AVPs of `as` -/
def AppErrOK (as : List AVP) (e : Option PErr) : Prop :=
  e = none ∨ e = some .noCommonApp ∨ (e = some .unexpected ∧ malformed as = true)

theorem malformed_of_vsa (as : List AVP) (h : (allOf C.vsa as).any vsaMalformed = true) : malformed as = true := by
  unfold malformed; rw [h]; simp

theorem malformed_of_app (as : List AVP)
    (h : (allOf C.acctApp as ++ allOf C.authApp as).any (fun a => notU32 a.data) = true) : malformed as = true := by
  unfold malformed; rw [h]; simp

theorem malformed_of_inband (as : List AVP) (h : inbandMalformed as = true) : malformed as = true := by
  unfold malformed; rw [h]; simp

theorem mem_allOf (code : Nat) (as : List AVP) (a : AVP) (h : a ∈ allOf code as) : a.code = code := by
  unfold allOf at h
  have := (List.mem_filter.mp h).2
  simpa using this

theorem validate_errOK_top (appOK : Nat → Nat → Bool) (typ code : Nat) (as : List AVP) (a : AVP)
    (hc : code = C.acctApp ∨ code = C.authApp) (ha : a ∈ allOf code as) :
    AppErrOK as (validate appOK typ a).1.2 := by
  have hv := validate_spec appOK typ a
  cases he : (validate appOK typ a).1.2 with
  | none => exact Or.inl rfl
  | some e =>
    cases e with
    | noCommonApp => exact Or.inr (Or.inl rfl)
    | unexpected =>
      refine Or.inr (Or.inr ⟨rfl, ?_⟩)
      have hn := hv.2.2.1 he
      apply malformed_of_app
      rw [List.any_eq_true]
      refine ⟨a, ?_, hn⟩
      rcases hc with h | h
      · rw [h] at ha; exact List.mem_append_left _ ha
      · rw [h] at ha; exact List.mem_append_right _ ha
    | missingHost => exact absurd he hv.2.2.2.1
    | missingRealm => exact absurd he hv.2.2.2.2.1
    | noCommonSecurity => exact absurd he hv.2.2.2.2.2

theorem validateAll_errOK (appOK : Nat → Nat → Bool) (typ code : Nat) (as : List AVP)
    (hc : code = C.acctApp ∨ code = C.authApp) : AppErrOK as (validateAll appOK typ (allOf code as)).1.2 := by
  unfold validateAll
  by_cases he : (allOf code as).isEmpty = true
  · simp only [he, if_true]; exact Or.inr (Or.inl rfl)
  · simp only [he, Bool.false_eq_true, if_false]
    split
    · exact Or.inl rfl
    · apply vaLoop_pres appOK typ (AppErrOK as)
      · exact Or.inl rfl
      · intro a ha _; exact validate_errOK_top appOK typ code as a hc ha

theorem hgLoop_pres (appOK : Nat → Nat → Bool) (P : Option PErr → Prop) :
    ∀ (l : List AVP) (c : VRes) (s : Bool) (ids : List Nat), P c.2 →
      (∀ k ∈ l, ∀ c', P c'.2 → P (memberRes appOK c' k).1.2) →
      P (hgLoop appOK l c s ids).1.2
  | [], c, s, ids, hc, _ => by simpa [hgLoop] using hc
  | k :: r, c, s, ids, hc, hl => by
    simp only [hgLoop]
    apply hgLoop_pres appOK P r
    · exact hl k (by simp) c hc
    · intro k' hk'; exact hl k' (by simp [hk'])

theorem handleGroup_errOK (appOK : Nat → Nat → Bool) (as : List AVP) (g : AVP) (hg : g ∈ allOf C.vsa as) :
    AppErrOK as (handleGroup appOK g).1.2 := by
  unfold handleGroup
  cases hd : g.data with
  | group kids =>
    simp only []
    split
    · exact Or.inl rfl
    · apply hgLoop_pres appOK (AppErrOK as)
      · exact Or.inl rfl
      · intro k hk c' hc'
        unfold memberRes
        have mal : ∀ typ, (k.code = C.acctApp ∨ k.code = C.authApp) → (validate appOK typ k).1.2 = some .unexpected →
            malformed as = true := by
          intro typ hcode hu
          have hn := (validate_spec appOK typ k).2.2.1 hu
          apply malformed_of_vsa
          rw [List.any_eq_true]
          refine ⟨g, hg, ?_⟩
          unfold vsaMalformed
          rw [hd]
          simp only [List.any_eq_true]
          refine ⟨k, hk, ?_⟩
          rcases hcode with h | h <;> simp [h, hn]
        have step : ∀ typ, (k.code = C.acctApp ∨ k.code = C.authApp) → AppErrOK as (validate appOK typ k).1.2 := by
          intro typ hcode
          have hv := validate_spec appOK typ k
          cases he : (validate appOK typ k).1.2 with
          | none => exact Or.inl rfl
          | some e =>
            cases e with
            | noCommonApp => exact Or.inr (Or.inl rfl)
            | unexpected => exact Or.inr (Or.inr ⟨rfl, mal typ hcode he⟩)
            | missingHost => exact absurd he hv.2.2.2.1
            | missingRealm => exact absurd he hv.2.2.2.2.1
            | noCommonSecurity => exact absurd he hv.2.2.2.2.2
        by_cases h1 : k.code = C.acctApp
        · simp only [h1, if_true]; exact step 2 (Or.inl h1)
        · by_cases h2 : k.code = C.authApp
          · simp only [h1, if_false, h2, if_true]; exact step 1 (Or.inr h2)
          · simp only [h1, h2, if_false]; exact hc'
  | _ =>
    simp only []
    refine Or.inr (Or.inr ⟨rfl, ?_⟩)
    apply malformed_of_vsa
    rw [List.any_eq_true]
    exact ⟨g, hg, by unfold vsaMalformed; rw [hd]⟩

theorem vsLoop_pres (appOK : Nat → Nat → Bool) (P : Option PErr → Prop) :
    ∀ (l : List AVP) (c : VRes) (f : Bool) (ids : List Nat), P c.2 →
      (∀ g ∈ l, (handleGroup appOK g).1.2 ≠ none → P (handleGroup appOK g).1.2) →
      P (vsLoop appOK l c f ids).1.2
  | [], c, f, ids, hc, _ => by simpa [vsLoop] using hc
  | g :: r, c, f, ids, hc, hl => by
    simp only [vsLoop]
    apply vsLoop_pres appOK P r
    · exact chooseErr_pres P c f _ hc (hl g (by simp))
    · intro g' hg'; exact hl g' (by simp [hg'])

/-- every error of `Application.Parse` is "no common application" or stems from a malformed AVP -/
theorem appParse_errOK (appOK : Nat → Nat → Bool) (as : List AVP) :
    AppErrOK as (appParse appOK (allOf C.acctApp as) (allOf C.authApp as) (allOf C.vsa as)).1 := by
  unfold appParse appParseOf
  split
  · apply vsLoop_pres appOK (AppErrOK as)
    · apply chooseErr_pres (AppErrOK as)
      · exact validateAll_errOK appOK 2 C.acctApp as (Or.inl rfl)
      · intro _; exact validateAll_errOK appOK 1 C.authApp as (Or.inr rfl)
    · intro g hg _; exact handleGroup_errOK appOK as g hg
  · split
    · exact Or.inr (Or.inl rfl)
    · exact Or.inl rfl

theorem mkMsg_avps (h : Header) : ∀ (as acc : List AVP) (hd : Header),
    (as.foldl Msg.addAVP { hdr := hd, avps := acc }).avps = acc ++ as ∧
    (as.foldl Msg.addAVP { hdr := hd, avps := acc }).hdr.hbh = hd.hbh ∧
    (as.foldl Msg.addAVP { hdr := hd, avps := acc }).hdr.e2e = hd.e2e ∧
    (as.foldl Msg.addAVP { hdr := hd, avps := acc }).hdr.cmd = hd.cmd ∧
    (as.foldl Msg.addAVP { hdr := hd, avps := acc }).hdr.app = hd.app ∧
    (as.foldl Msg.addAVP { hdr := hd, avps := acc }).hdr.flags = hd.flags
  | [], acc, hd => by simp
  | a :: r, acc, hd => by
    simp only [List.foldl_cons, Msg.addAVP]
    have := mkMsg_avps h r (acc ++ [a]) { hd with len := (hd.len + a.len) % 4294967296 }
    simpa [List.append_assoc] using this


end DV
