import Model.Alias
/-! Proofs.Alias — no decoded value is a view when every slice-typed decoder copies (C06). -/
namespace DV

theorem leafView_none (cfg : AliasCfg) (h : cfg.allCopy = true) (t : Nat) (p : Bytes) : leafView cfg t p = none := by
  simp only [AliasCfg.allCopy, Bool.and_eq_true, Bool.not_eq_true'] at h
  obtain ⟨⟨⟨h1, h2⟩, h3⟩, h4⟩ := h
  unfold leafView
  simp [h1, h2, h3, h4]

mutual
theorem viewsAVP_nil (cfg : AliasCfg) (h : cfg.allCopy = true) (ty : Nat → Nat → Nat) :
    ∀ (fuel base : Nat) (data : Bytes), viewsAVP cfg ty fuel base data = []
  | 0, _, _ => by simp [viewsAVP]
  | fuel+1, base, data => by
    unfold viewsAVP
    simp only []
    split
    · rfl
    · split
      · rfl
      · split
        · rfl
        · simp only [viewsAVPs_nil cfg h ty fuel, leafView_none cfg h]
          simp
theorem viewsAVPs_nil (cfg : AliasCfg) (h : cfg.allCopy = true) (ty : Nat → Nat → Nat) :
    ∀ (fuel base : Nat) (b : Bytes), viewsAVPs cfg ty fuel base b = []
  | 0, _, _ => by simp [viewsAVPs]
  | fuel+1, base, b => by
    unfold viewsAVPs
    split
    · rfl
    · simp only []
      rw [viewsAVP_nil cfg h ty fuel, viewsAVPs_nil cfg h ty fuel]
      rfl
end

/-- a message without views looks the same in every memory -/
theorem observe_noviews (mem mem' : Mem) (m : Retained) (h : m.views = []) : observe mem' m = observe mem m := by
  simp [observe, h]

/-- buffers that are not in the pool are never written by later reads, and stay out of the pool -/
theorem apply_unpooled (cfg : AliasCfg) (mem : Mem) (o : AOp) (i : Nat) (b : Buf)
    (hi : mem[i]? = some b) (hp : b.pooled = false) : (o.apply cfg mem)[i]? = some b := by
  cases o with
  | gc =>
    simp only [AOp.apply, List.getElem?_map, hi, Option.map_some]
    cases b; simp_all
  | write w => simpa [AOp.apply] using hi
  | read choice body =>
    simp only [AOp.apply]
    split
    · exact hi
    · split
      · rename_i j hj
        have hjm : j ∈ pooledIdx mem := List.mem_of_getElem? hj
        simp only [pooledIdx, List.mem_filter, List.mem_range] at hjm
        have hne : j ≠ i := by
          intro e; subst e
          simp [hi, hp] at hjm
        rw [List.getElem?_modify]; simp [hne, hi]
      · have : i < mem.length := by
          rcases Nat.lt_or_ge i mem.length with h | h
          · exact h
          · rw [List.getElem?_eq_none h] at hi; cases hi
        rw [List.getElem?_append_left this]; exact hi

theorem runOps_unpooled (cfg : AliasCfg) : ∀ (ops : List AOp) (mem : Mem) (i : Nat) (b : Buf),
    mem[i]? = some b → b.pooled = false → (runOps cfg mem ops)[i]? = some b
  | [], mem, i, b, hi, _ => by simpa [runOps] using hi
  | o :: os, mem, i, b, hi, hp => by
    simp only [runOps]
    exact runOps_unpooled cfg os _ i b (apply_unpooled cfg mem o i b hi hp) hp

theorem observe_samebuf (mem mem' : Mem) (m : Retained) (h : mem'[m.buf]? = mem[m.buf]?) :
    observe mem' m = observe mem m := by
  simp [observe, readView, h]

end DV
