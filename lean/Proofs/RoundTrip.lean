import Proofs.Encode
import Proofs.Frame
/-! decode ∘ encode = id on canonical, correctly typed trees (C01, API direction). -/
namespace DV
open DV.Spec

/-- the AVP header octets -/
def hdrBytes (c f n v : Nat) : Bytes :=
  be 4 c ++ [UInt8.ofNat f] ++ be 3 n ++ (if hasV f then be 4 v else [])

theorem hdrBytes_length (c f n v : Nat) : (hdrBytes c f n v).length = hdrLen f := by
  unfold hdrBytes hdrLen; split <;> simp

theorem enc_split (c f l v : Nat) (d : Val) :
    (AVP.mk c f l v d).enc = hdrBytes c f (hdrLen f + d.len) v ++ (d.ser ++ zeros d.padding) := by
  rw [AVP.enc_padding, hdrBytes]; simp [List.append_assoc]

theorem hdr_take4 (c f n v : Nat) (T : Bytes) : (hdrBytes c f n v ++ T).take 4 = be 4 c := by
  simp [hdrBytes, be, List.append_assoc]
theorem hdr_flags (c f n v : Nat) (T : Bytes) : (hdrBytes c f n v ++ T).getD 4 0 = UInt8.ofNat f := by
  simp [hdrBytes, be, List.append_assoc]
theorem hdr_len3 (c f n v : Nat) (T : Bytes) : ((hdrBytes c f n v ++ T).drop 5).take 3 = be 3 n := by
  simp [hdrBytes, be, List.append_assoc]
theorem hdr_vendor (c f n v : Nat) (T : Bytes) (hv : hasV f = true) :
    ((hdrBytes c f n v ++ T).drop 8).take 4 = be 4 v := by
  simp [hdrBytes, be, List.append_assoc, hv]

theorem take_drop_mid (H S R : Bytes) (n k : Nat) (hn : H.length = k) (hm : n = k + S.length) :
    ((H ++ (S ++ R)).take n).drop k = S := by
  subst hn hm
  rw [← List.append_assoc, List.take_left' (by simp), List.drop_left]

theorem typedOk_fst (ty : Nat → Nat → Nat) (c f l v : Nat) (d : Val)
    (h : typedOk ty (AVP.mk c f l v d) = true) : ty c v = dictTypeOf d := by
  cases d <;> simp [typedOk] at h <;> first | exact h | exact h.1

theorem typedOk_group (ty : Nat → Nat → Nat) (c f l v : Nat) (kids : List AVP)
    (h : typedOk ty (AVP.mk c f l v (.group kids)) = true) : typedOkL ty kids = true := by
  simp [typedOk] at h; exact h.2

theorem ofNat_toNat (f : Nat) (h : f < 256) : (UInt8.ofNat f).toNat = f := by
  simp; omega

mutual
theorem ser_length : ∀ d : Val, canonVal d = true → d.ser.length = d.len
  | .str t b, _ => by simp [Val.ser, Val.len]
  | .addr b, h => by
    simp only [canonVal, decide_eq_true_eq] at h
    have := addr_canon_cases b (by simpa using h)
    simp only [Val.len]; rw [this.1, this.2]
  | .ip4 b, h => by
    simp only [canonVal, decide_eq_true_eq] at h
    simp [Val.ser, Val.len, to4_len4 b h, h]
  | .ip6 b, h => by
    simp only [canonVal, decide_eq_true_eq] at h
    simp [Val.ser, Val.len, to16_len16 b h, h]
  | .fix t n, _ => by simp [Val.ser, Val.len]
  | .time u, _ => by simp [Val.ser, Val.len, encTime]
  | .group as, h => by
    simp only [canonVal] at h
    simp only [Val.ser, Val.len]; exact encL_length as h
theorem enc_length : ∀ a : AVP, canonAVP a = true → a.enc.length = a.len
  | .mk c f l v d, h => by
    simp only [canonAVP, Bool.and_eq_true, decide_eq_true_eq, Bool.decide_and] at h
    rw [enc_split, AVP.len_eq]
    simp [hdrBytes_length, ser_length d h.2.2.2.2, zeros, Nat.add_assoc]
theorem encL_length : ∀ as : List AVP, canonL as = true → (encL as).length = lenL as
  | [], _ => by simp [encL, lenL]
  | a :: r, h => by
    simp only [canonL, Bool.and_eq_true] at h
    simp [encL, lenL, enc_length a h.1, encL_length r h.2]
end

theorem len_ge8 (a : AVP) : 8 ≤ a.len := by
  cases a with
  | mk c f l v d => rw [AVP.len_eq]; have := hdrLen_cases f; omega

/-- padded size: `AVP.Len()` of a canonical AVP is its Length rounded up to four -/
theorem len_pad4 (c f l v : Nat) (d : Val) (h : canonVal d = true) :
    (AVP.mk c f l v d).len = pad4 (hdrLen f + d.len) := by
  rw [AVP.len_eq]
  have hs := (ser_eq d h).2
  have := padding_spec d h hs (hdrLen f) (hdrLen_cases f)
  rw [this, ← hs]; unfold pad4; omega

theorem rd_list2 (a b : UInt8) : rd [a, b] = a.toNat * 256 + b.toNat := by
  simp [rd]

/-- every non-grouped canonical value is returned unchanged by the data decoder of its own type -/
theorem leaf_roundtrip (d : Val) (hc : canonVal d = true) (hng : ∀ as, d ≠ .group as) :
    decodeLeaf (dictTypeOf d) d.ser = .ok d := by
  cases d with
  | group as => exact absurd rfl (hng as)
  | str t b =>
    simp only [canonVal, decide_eq_true_eq] at hc
    simp only [dictTypeOf, Val.ser, decodeLeaf]
    simp [hc]
  | addr b =>
    simp only [canonVal, decide_eq_true_eq] at hc
    have hc' : b.length = 4 ∨ (b.length = 16 ∧ ¬ isV4Mapped b = true) ∨
       (b.length ≥ 3 ∧ b.length ≠ 4 ∧ b.length ≠ 16 ∧
         (rd (b.take 2) ≠ 0 ∧ rd (b.take 2) ≠ 1 ∧ rd (b.take 2) ≠ 2 ∧ rd (b.take 2) ≠ 65535)) := by simpa using hc
    have hser := (addr_canon_cases b hc').1
    rw [hser]
    simp only [dictTypeOf, decodeLeaf, T.address, T.unknown, T.ident, T.uri, T.ipfilter, T.octets, T.qos, T.utf8]
    rcases hc' with h | ⟨h, _⟩ | ⟨h3, h4, h16, hf0, hf1, hf2, hf3⟩
    · simp [addrOctets, h, rd_list2]
    · have h4 : b.length ≠ 4 := by omega
      simp [addrOctets, h, h4, rd_list2]
    · simp [addrOctets, h4, h16]
      have : ¬ b.length < 3 := by omega
      simp [this, hf0, hf1, hf2, hf3]
  | ip4 b =>
    simp only [canonVal, decide_eq_true_eq] at hc
    simp [dictTypeOf, Val.ser, to4_len4 b hc, decodeLeaf, T.ipv4, T.address, T.unknown, T.ident, T.uri, T.ipfilter, T.octets, T.qos, T.utf8,
      T.enum, T.f32, T.i32, T.u32, T.f64, T.i64, T.u64, hc]
  | ip6 b =>
    simp only [canonVal, decide_eq_true_eq] at hc
    simp [dictTypeOf, Val.ser, to16_len16 b hc, decodeLeaf, T.ipv6, T.ipv4, T.address, T.unknown, T.ident, T.uri, T.ipfilter, T.octets, T.qos, T.utf8,
      T.enum, T.f32, T.i32, T.u32, T.f64, T.i64, T.u64, hc]
  | fix t n =>
    simp only [canonVal, Bool.and_eq_true, decide_eq_true_eq, Bool.decide_and] at hc
    obtain ⟨ht, hn⟩ := hc
    have h4 : (256:Nat) ^ 4 = 4294967296 := by decide
    have h8 : (256:Nat) ^ 8 = 18446744073709551616 := by decide
    rcases ht with rfl | rfl | rfl | rfl | rfl | rfl | rfl <;>
      simp [dictTypeOf, Val.ser, decodeLeaf, fixW, T.enum, T.f32, T.i32, T.u32, T.f64, T.i64, T.u64,
        T.address, T.unknown, T.ident, T.uri, T.ipfilter, T.octets, T.qos, T.utf8, rd_be] at hn ⊢ <;>
      omega
  | time u =>
    simp only [canonVal, Bool.and_eq_true, decide_eq_true_eq, Bool.decide_and] at hc
    obtain ⟨h1, h2⟩ := hc
    have h4 : (256:Nat) ^ 4 = 4294967296 := by decide
    have hnn : 0 ≤ (u + 2208988800) % 4294967296 := Int.emod_nonneg _ (by decide)
    obtain ⟨N, hN⟩ : ∃ N : Nat, (N : Int) = (u + 2208988800) % 4294967296 :=
      ⟨_, Int.toNat_of_nonneg hnn⟩
    have hNlt : N < 4294967296 := by omega
    have hser : (Val.time u).ser = be 4 N := by
      simp only [Val.ser, encTime, rfc868]
      congr 1
      have : (u + ((2208988800 : Nat) : Int)) % 4294967296 = (N : Int) := by rw [hN]; rfl
      rw [this]; simp
    rw [hser]
    simp only [dictTypeOf, decodeLeaf, T.time, T.ipv6, T.ipv4, T.address, T.unknown, T.ident, T.uri,
      T.ipfilter, T.octets, T.qos, T.utf8, T.enum, T.f32, T.i32, T.u32, T.f64, T.i64, T.u64, be_length, rd_be, rfc868, rfc2030,
      h4, Nat.mod_eq_of_lt hNlt]
    simp
    split
    · have e : (N : Int) + 2085978496 = u := by omega
      rw [e]
    · have e : (N : Int) - 2208988800 = u := by omega
      rw [e]

theorem dictTypeOf_ne_grouped (d : Val) (hc : canonVal d = true) (hng : ∀ as, d ≠ .group as) :
    dictTypeOf d ≠ T.grouped := by
  cases d with
  | group as => exact absurd rfl (hng as)
  | str t b =>
    simp only [canonVal, decide_eq_true_eq] at hc
    rcases hc with h | h | h | h | h | h | h <;> simp [dictTypeOf, h, T.grouped, T.unknown, T.ident, T.uri, T.ipfilter, T.octets, T.qos, T.utf8]
  | fix t n =>
    simp only [canonVal, Bool.and_eq_true, decide_eq_true_eq, Bool.decide_and] at hc
    rcases hc.1 with h | h | h | h | h | h | h <;> simp [dictTypeOf, h, T.grouped, T.enum, T.f32, T.i32, T.u32, T.f64, T.i64, T.u64]
  | _ => simp [dictTypeOf, T.grouped, T.address, T.ipv4, T.ipv6, T.time]

mutual
/-- (A) one AVP, with anything after it -/
theorem rt_avp (ty : Nat → Nat → Nat) : ∀ (a : AVP), canonAVP a = true → typedOk ty a = true →
    a.len < 16777216 → ∀ fuel, a.len ≤ fuel → ∀ rest, decodeAVP ty fuel (a.enc ++ rest) = .ok (wire a)
  | .mk c f l v d, hc, ht, hsz, fuel, hfuel, rest => by
    have h8 := len_ge8 (AVP.mk c f l v d)
    obtain ⟨fuel', rfl⟩ : ∃ k, fuel = k + 1 := ⟨fuel - 1, by omega⟩
    simp only [canonAVP, Bool.and_eq_true, decide_eq_true_eq, Bool.decide_and] at hc
    obtain ⟨hc1, hf, hv1, hvz, hd⟩ := hc
    have hlen := AVP.len_eq c f l v d
    have hsl := ser_length d hd
    have hhl := hdrLen_cases f
    rw [decodeAVP_nf, enc_split]
    simp only [List.append_assoc]
    generalize hT : d.ser ++ (zeros d.padding ++ rest) = T
    rw [hdr_take4, hdr_flags, hdr_len3]
    have hTlen : d.len ≤ T.length := by rw [← hT]; simp [hsl]
    have hn : hdrLen f + d.len < 16777216 := by omega
    have e3 : (256:Nat) ^ 3 = 16777216 := by decide
    have e4 : (256:Nat) ^ 4 = 4294967296 := by decide
    simp only [rd_be, ofNat_toNat f hf, e3, e4, Nat.mod_eq_of_lt hn, Nat.mod_eq_of_lt hc1,
      List.length_append, hdrBytes_length]
    have c1 : ¬ (hdrLen f + T.length < 8) := by omega
    have c2 : ¬ (hdrLen f + T.length < hdrLen f + d.len) := by omega
    have c3 : ¬ (hdrLen f + d.len < 8) := by omega
    have c4 : ¬ (hasV f = true ∧ hdrLen f + d.len < 12) := by
      intro ⟨hv, hlt⟩; unfold hdrLen at hlt; simp [hv] at hlt; omega
    simp only [c1, c2, c3, c4, if_false]
    -- vendor
    have hvend : (if hasV f = true then rd (((hdrBytes c f (hdrLen f + d.len) v ++ T).drop 8).take 4) else 0) = v := by
      by_cases hv : hasV f = true
      · simp only [hv, if_true]; rw [hdr_vendor _ _ _ _ _ hv, rd_be, e4, Nat.mod_eq_of_lt hv1]
      · simp only [hv, Bool.false_eq_true, if_false]
        rcases hvz with h | h
        · exact absurd ((hasV_spec f).mpr h) hv
        · exact h.symm
    rw [hvend]
    -- payload
    have hpay : payloadOf (hdrBytes c f (hdrLen f + d.len) v ++ T) f (hdrLen f + d.len) = d.ser := by
      unfold payloadOf
      rw [← hT]
      exact take_drop_mid _ _ _ _ _ (hdrBytes_length c f _ v) (by rw [hsl])
    rw [hpay, decodePayload_unfold]
    rw [typedOk_fst ty c f l v d ht]
    cases d with
    | group kids =>
      simp only [dictTypeOf, if_true]
      simp only [canonVal] at hd
      have hk := rt_list ty kids hd (typedOk_group ty c f l v kids ht)
        (by simp only [Val.len] at hlen; rw [hlen] at hsz; omega) fuel'
        (by simp only [Val.len] at hlen; rw [hlen] at hfuel; omega)
      simp only [Val.ser]
      rw [hk]
      simp [Res.mapR, wire, Val.len]
    | str t b =>
      have hng : ∀ as, Val.str t b ≠ .group as := by intro as h; cases h
      simp only [dictTypeOf_ne_grouped _ hd hng, if_false]
      rw [leaf_roundtrip _ hd hng]; simp [Res.mapR, wire]
    | addr b =>
      have hng : ∀ as, Val.addr b ≠ .group as := by intro as h; cases h
      simp only [dictTypeOf_ne_grouped _ hd hng, if_false]
      rw [leaf_roundtrip _ hd hng]; simp [Res.mapR, wire]
    | ip4 b =>
      have hng : ∀ as, Val.ip4 b ≠ .group as := by intro as h; cases h
      simp only [dictTypeOf_ne_grouped _ hd hng, if_false]
      rw [leaf_roundtrip _ hd hng]; simp [Res.mapR, wire]
    | ip6 b =>
      have hng : ∀ as, Val.ip6 b ≠ .group as := by intro as h; cases h
      simp only [dictTypeOf_ne_grouped _ hd hng, if_false]
      rw [leaf_roundtrip _ hd hng]; simp [Res.mapR, wire]
    | fix t n =>
      have hng : ∀ as, Val.fix t n ≠ .group as := by intro as h; cases h
      simp only [dictTypeOf_ne_grouped _ hd hng, if_false]
      rw [leaf_roundtrip _ hd hng]; simp [Res.mapR, wire]
    | time u =>
      have hng : ∀ as, Val.time u ≠ .group as := by intro as h; cases h
      simp only [dictTypeOf_ne_grouped _ hd hng, if_false]
      rw [leaf_roundtrip _ hd hng]; simp [Res.mapR, wire]
/-- (L) a whole container -/
theorem rt_list (ty : Nat → Nat → Nat) : ∀ (as : List AVP), canonL as = true → typedOkL ty as = true →
    lenL as < 16777216 → ∀ fuel, lenL as + 1 ≤ fuel → decodeAVPs ty fuel (encL as) = .ok (wireL as)
  | [], _, _, _, fuel, _ => by
    cases fuel with
    | zero => simp [encL, wireL, decodeAVPs_zero]
    | succ k => simp [encL, wireL, decodeAVPs_succ]
  | a :: r, hc, ht, hsz, fuel, hfuel => by
    simp only [canonL, Bool.and_eq_true] at hc
    simp only [typedOkL, Bool.and_eq_true] at ht
    simp only [lenL] at hsz hfuel
    have h8 := len_ge8 a
    obtain ⟨fuel', rfl⟩ : ∃ k, fuel = k + 1 := ⟨fuel - 1, by omega⟩
    have hne : (encL (a :: r)).isEmpty = false := by
      simp only [encL]
      cases he : a.enc ++ encL r with
      | nil =>
        have := congrArg List.length he
        have hel := enc_length a hc.1
        simp only [List.length_append, List.length_nil] at this
        omega
      | cons x xs => rfl
    rw [decodeAVPs_succ]
    simp only [hne, Bool.false_eq_true, if_false]
    simp only [encL]
    rw [rt_avp ty a hc.1 ht.1 (by omega) fuel' (by omega) (encL r)]
    simp only [Res.bindR]
    have hdrop : (a.enc ++ encL r).drop (pad4 (wire a).length) = encL r := by
      cases a with
      | mk c f l v d =>
        have hcd : canonVal d = true := by
          simp only [canonAVP, Bool.and_eq_true, decide_eq_true_eq, Bool.decide_and] at hc
          exact hc.1.2.2.2.2
        simp only [wire, AVP.length_mk]
        rw [← len_pad4 c f l v d hcd, ← enc_length _ hc.1]
        exact List.drop_left
    rw [hdrop, rt_list ty r hc.2 ht.2 (by omega) fuel' (by omega)]
    simp [Res.mapR, wireL]
end

mutual
/-- the encoder does not look at the Length field -/
theorem enc_wire : ∀ a : AVP, (wire a).enc = a.enc ∧ (wire a).len = a.len
  | .mk c f l v d => by
    cases d with
    | group as =>
      have := encL_wire as
      constructor
      · simp only [wire, AVP.enc, Val.ser, Val.len, this.1, this.2]
      · simp only [wire, AVP.len, Val.len, this.2]
    | _ => constructor <;> simp [wire, AVP.enc, AVP.len]
theorem encL_wire : ∀ as : List AVP, encL (wireL as) = encL as ∧ lenL (wireL as) = lenL as
  | [] => by simp [wireL, encL, lenL]
  | a :: r => by
    have h1 := enc_wire a
    have h2 := encL_wire r
    constructor
    · simp only [wireL, encL, h1.1, h2.1]
    · simp only [wireL, lenL, h1.2, h2.2]
end

mutual
theorem wire_idem : ∀ a : AVP, wire (wire a) = wire a
  | .mk c f l v d => by
    cases d with
    | group as =>
      simp only [wire, Val.len, (encL_wire as).2, wireL_idem as]
    | _ => simp [wire, Val.len]
theorem wireL_idem : ∀ as : List AVP, wireL (wireL as) = wireL as
  | [] => rfl
  | a :: r => by simp only [wireL, wire_idem a, wireL_idem r]
end

end DV
