// extract: reads /repo (go/ast only, no type checker) and regenerates
// /verif/lean/Gen/*.lean — the part of the Lean model that is derived from the
// source on every run. Table-oriented on purpose: it does not translate
// arbitrary Go. Anything it does not recognise is emitted as `unrecognised`
// (a value no obligation accepts), never guessed.
package main

import (
	"encoding/xml"
	"fmt"
	"go/ast"
	"go/parser"
	"go/token"
	"math/big"
	"os"
	"path/filepath"
	"sort"
	"strconv"
	"strings"
)

var repo = "/repo"
var outDir = "/verif/lean/Gen"
var fset = token.NewFileSet()

func parseFile(rel string) *ast.File {
	f, err := parser.ParseFile(fset, filepath.Join(repo, rel), nil, parser.ParseComments)
	if err != nil {
		fmt.Fprintf(os.Stderr, "extract: cannot parse %s: %v\n", rel, err)
		return nil
	}
	return f
}

// ---------------------------------------------------------------- constants

type constEnv map[string]*big.Int

func evalConst(e ast.Expr, env constEnv, iota int) *big.Int {
	switch x := e.(type) {
	case *ast.BasicLit:
		if x.Kind == token.INT {
			v := new(big.Int)
			if _, ok := v.SetString(x.Value, 0); ok {
				return v
			}
		}
		return nil
	case *ast.Ident:
		if x.Name == "iota" {
			return big.NewInt(int64(iota))
		}
		if v, ok := env[x.Name]; ok {
			return v
		}
		return nil
	case *ast.ParenExpr:
		return evalConst(x.X, env, iota)
	case *ast.UnaryExpr:
		if x.Op == token.XOR { // ^uintNN(0)
			if c, ok := x.X.(*ast.CallExpr); ok && len(c.Args) == 1 {
				if id, ok := c.Fun.(*ast.Ident); ok {
					a := evalConst(c.Args[0], env, iota)
					if a == nil {
						return nil
					}
					bits := map[string]uint{"uint": 64, "uint64": 64, "uint32": 32, "uint16": 16, "uint8": 8}[id.Name]
					if bits == 0 {
						return nil
					}
					m := new(big.Int).Lsh(big.NewInt(1), bits)
					m.Sub(m, big.NewInt(1))
					return m.Xor(m, a)
				}
			}
			return nil
		}
		if x.Op == token.SUB {
			a := evalConst(x.X, env, iota)
			if a == nil {
				return nil
			}
			return new(big.Int).Neg(a)
		}
		return nil
	case *ast.CallExpr: // conversions T(x)
		if len(x.Args) == 1 {
			return evalConst(x.Args[0], env, iota)
		}
		return nil
	case *ast.BinaryExpr:
		a, b := evalConst(x.X, env, iota), evalConst(x.Y, env, iota)
		if a == nil || b == nil {
			return nil
		}
		r := new(big.Int)
		switch x.Op {
		case token.ADD:
			return r.Add(a, b)
		case token.SUB:
			return r.Sub(a, b)
		case token.MUL:
			return r.Mul(a, b)
		case token.SHL:
			return r.Lsh(a, uint(b.Int64()))
		case token.SHR:
			return r.Rsh(a, uint(b.Int64()))
		case token.OR:
			return r.Or(a, b)
		case token.AND:
			return r.And(a, b)
		}
	}
	return nil
}

// constsOf evaluates every const (and simple var) declaration of a file, in order.
func constsOf(f *ast.File, env constEnv, withVars bool) []string {
	var order []string
	if f == nil {
		return order
	}
	for _, d := range f.Decls {
		gd, ok := d.(*ast.GenDecl)
		if !ok || !(gd.Tok == token.CONST || (withVars && gd.Tok == token.VAR)) {
			continue
		}
		var last []ast.Expr
		for i, s := range gd.Specs {
			vs := s.(*ast.ValueSpec)
			vals := vs.Values
			if len(vals) == 0 {
				vals = last
			} else {
				last = vals
			}
			for j, n := range vs.Names {
				if j < len(vals) {
					if v := evalConst(vals[j], env, i); v != nil {
						env[n.Name] = v
						order = append(order, n.Name)
					}
				}
			}
		}
	}
	return order
}

func leanIdent(s string) string {
	r := strings.NewReplacer("-", "_", ".", "_", " ", "_")
	return r.Replace(s)
}

// ---------------------------------------------------------------- interning

var nameIDs = map[string]int{"": 0}
var nameList = []string{""}

func intern(s string) int {
	if id, ok := nameIDs[s]; ok {
		return id
	}
	id := len(nameList)
	nameIDs[s] = id
	nameList = append(nameList, s)
	return id
}

// ---------------------------------------------------------------- helpers on AST

func findFunc(f *ast.File, recv, name string) *ast.FuncDecl {
	if f == nil {
		return nil
	}
	for _, d := range f.Decls {
		fd, ok := d.(*ast.FuncDecl)
		if !ok || fd.Name.Name != name {
			continue
		}
		if recv == "" && fd.Recv == nil {
			return fd
		}
		if recv != "" && fd.Recv != nil && len(fd.Recv.List) == 1 {
			t := fd.Recv.List[0].Type
			if st, ok := t.(*ast.StarExpr); ok {
				t = st.X
			}
			if id, ok := t.(*ast.Ident); ok && id.Name == recv {
				return fd
			}
		}
	}
	return nil
}

func exprString(e ast.Expr) string {
	switch x := e.(type) {
	case *ast.Ident:
		return x.Name
	case *ast.SelectorExpr:
		return exprString(x.X) + "." + x.Sel.Name
	case *ast.BasicLit:
		return x.Value
	case *ast.CallExpr:
		var a []string
		for _, y := range x.Args {
			a = append(a, exprString(y))
		}
		return exprString(x.Fun) + "(" + strings.Join(a, ",") + ")"
	case *ast.StarExpr:
		return "*" + exprString(x.X)
	case *ast.UnaryExpr:
		return x.Op.String() + exprString(x.X)
	case *ast.BinaryExpr:
		return "(" + exprString(x.X) + x.Op.String() + exprString(x.Y) + ")"
	case *ast.IndexExpr:
		return exprString(x.X) + "[" + exprString(x.Index) + "]"
	case *ast.SliceExpr:
		lo, hi := "", ""
		if x.Low != nil {
			lo = exprString(x.Low)
		}
		if x.High != nil {
			hi = exprString(x.High)
		}
		return exprString(x.X) + "[" + lo + ":" + hi + "]"
	case *ast.ParenExpr:
		return "(" + exprString(x.X) + ")"
	case *ast.CompositeLit:
		return "lit"
	case *ast.ArrayType:
		return "[]" + exprString(x.Elt)
	case *ast.FuncLit:
		return "func"
	case *ast.TypeAssertExpr:
		if x.Type == nil {
			return exprString(x.X) + ".(type)"
		}
		return exprString(x.X) + ".(" + exprString(x.Type) + ")"
	case *ast.KeyValueExpr:
		return exprString(x.Key) + ":" + exprString(x.Value)
	case *ast.MapType:
		return "map"
	case *ast.ChanType:
		return "chan " + exprString(x.Value)
	case *ast.StructType:
		return "struct{}"
	}
	return "?"
}

// mapLiteral returns key/value expressions of `var name = map[..]..{...}`.
func mapLiteral(f *ast.File, name string) [][2]ast.Expr {
	if f == nil {
		return nil
	}
	for _, d := range f.Decls {
		gd, ok := d.(*ast.GenDecl)
		if !ok || gd.Tok != token.VAR {
			continue
		}
		for _, s := range gd.Specs {
			vs := s.(*ast.ValueSpec)
			for i, n := range vs.Names {
				if n.Name == name && i < len(vs.Values) {
					if cl, ok := vs.Values[i].(*ast.CompositeLit); ok {
						var out [][2]ast.Expr
						for _, e := range cl.Elts {
							if kv, ok := e.(*ast.KeyValueExpr); ok {
								out = append(out, [2]ast.Expr{kv.Key, kv.Value})
							}
						}
						return out
					}
				}
			}
		}
	}
	return nil
}

func stringConstVars(f *ast.File) map[string]string {
	out := map[string]string{}
	if f == nil {
		return out
	}
	for _, d := range f.Decls {
		gd, ok := d.(*ast.GenDecl)
		if !ok || gd.Tok != token.VAR {
			continue
		}
		for _, s := range gd.Specs {
			vs := s.(*ast.ValueSpec)
			for i, n := range vs.Names {
				if i < len(vs.Values) {
					if bl, ok := vs.Values[i].(*ast.BasicLit); ok && bl.Kind == token.STRING {
						if v, err := strconv.Unquote(bl.Value); err == nil {
							out[n.Name] = v
						}
					}
				}
			}
		}
	}
	return out
}

// ---------------------------------------------------------------- dictionary XML (own structs)

type xFile struct {
	XMLName xml.Name `xml:"diameter"`
	App     []xApp   `xml:"application"`
}
type xApp struct {
	ID      uint32    `xml:"id,attr"`
	Type    string    `xml:"type,attr"`
	Name    string    `xml:"name,attr"`
	Vendor  []xVendor `xml:"vendor"`
	Command []xCmd    `xml:"command"`
	AVP     []xAVP    `xml:"avp"`
}
type xVendor struct {
	ID uint32 `xml:"id,attr"`
}
type xCmd struct {
	Code    uint32 `xml:"code,attr"`
	Name    string `xml:"name,attr"`
	Short   string `xml:"short,attr"`
	Request struct {
		Rule []struct{} `xml:"rule"`
	} `xml:"request"`
	Answer struct {
		Rule []struct{} `xml:"rule"`
	} `xml:"answer"`
}
type xAVP struct {
	Name     string `xml:"name,attr"`
	Code     uint32 `xml:"code,attr"`
	Must     string `xml:"must,attr"`
	VendorID uint32 `xml:"vendor-id,attr"`
	Data     struct {
		TypeName string     `xml:"type,attr"`
		Item     []struct{} `xml:"item"`
		Rule     []struct{} `xml:"rule"`
	} `xml:"data"`
}

// ---------------------------------------------------------------- emit

type emitter struct{ b strings.Builder }

func (e *emitter) f(format string, a ...interface{}) { fmt.Fprintf(&e.b, format, a...) }
func (e *emitter) write(name string) {
	if err := os.WriteFile(filepath.Join(outDir, name), []byte(e.b.String()), 0o644); err != nil {
		fmt.Fprintln(os.Stderr, "extract:", err)
		os.Exit(2)
	}
}

func natList(xs []int) string {
	var s []string
	for _, x := range xs {
		s = append(s, strconv.Itoa(x))
	}
	return "[" + strings.Join(s, ", ") + "]"
}

func leanStr(s string) string {
	return strconv.Quote(s)
}

const unrec = "4000000007" // distinguished value: "unrecognised"

func main() {
	if len(os.Args) > 1 {
		repo = os.Args[1]
	}
	if len(os.Args) > 2 {
		outDir = os.Args[2]
	}
	os.MkdirAll(outDir, 0o755)
	old, _ := filepath.Glob(filepath.Join(outDir, "*.lean"))
	for _, o := range old {
		os.Remove(o)
	}

	emitConsts()
	emitTables()
	emitLayout()
	emitArith()
	emitDict()
	emitStruct()
	emitPools()
	// names last (interning complete)
	var e emitter
	e.f("/- generated by /verif/extract from %s — do not edit -/\nnamespace Gen\n", repo)
	e.f("def names : Array String := #[\n")
	for i, n := range nameList {
		sep := ","
		if i == len(nameList)-1 {
			sep = ""
		}
		e.f("  %s%s\n", leanStr(n), sep)
	}
	e.f("]\nend Gen\n")
	e.write("Names.lean")
}

func get(env constEnv, name string) string {
	if v, ok := env[name]; ok {
		return v.String()
	}
	return unrec
}

func emitConsts() {
	var e emitter
	e.f("/- generated by /verif/extract from %s — do not edit -/\nnamespace Gen\n", repo)
	e.f("/-- the value emitted for anything the extractor did not recognise -/\ndef unrecognised : Nat := %s\n", unrec)

	env := constEnv{}
	constsOf(parseFile("diam/header.go"), env, false)
	for _, n := range []string{"HeaderLength", "RequestFlag", "ProxiableFlag", "ErrorFlag", "RetransmittedFlag"} {
		e.f("def %s : Nat := %s\n", n, get(env, n))
	}
	env = constEnv{}
	constsOf(parseFile("diam/avp/flags.go"), env, false)
	for _, n := range []string{"Vbit", "Mbit", "Pbit"} {
		e.f("def %s : Nat := %s\n", n, get(env, n))
	}
	env = constEnv{}
	constsOf(parseFile("diam/message.go"), env, true)
	e.f("def MessageBufferLength : Nat := %s\n", get(env, "MessageBufferLength"))
	env = constEnv{}
	constsOf(parseFile("diam/network.go"), env, false)
	e.f("def InvalidStreamID : Nat := %s\n", get(env, "InvalidStreamID"))
	env = constEnv{}
	constsOf(parseFile("diam/datatype/time.go"), env, false)
	e.f("def rfc868offset : Nat := %s\ndef rfc2030offset : Nat := %s\n", get(env, "rfc868offset"), get(env, "rfc2030offset"))
	env = constEnv{}
	constsOf(parseFile("diam/group.go"), env, false)
	e.f("def GroupedAVPType : Nat := %s\n", get(env, "GroupedAVPType"))
	env = constEnv{}
	constsOf(parseFile("diam/dict/parser.go"), env, false)
	e.f("def UndefinedVendorID : Nat := %s\n", get(env, "UndefinedVendorID"))
	env = constEnv{}
	constsOf(parseFile("diam/codes.go"), env, false)
	for _, n := range []string{"Success", "NoCommonApplication", "NoCommonSecurity", "UnableToComply"} {
		e.f("def rc%s : Nat := %s\n", n, get(env, n))
	}
	env = constEnv{}
	constsOf(parseFile("diam/commands.go"), env, false)
	e.f("def cmdCapabilitiesExchange : Nat := %s\ndef cmdDeviceWatchdog : Nat := %s\n", get(env, "CapabilitiesExchange"), get(env, "DeviceWatchdog"))

	// TypeID enumeration, in source order
	env = constEnv{}
	order := constsOf(parseFile("diam/datatype/datatype.go"), env, false)
	e.f("/-- `datatype.TypeID` constants in source order: (name id, value) -/\ndef typeIds : List (String × Nat) := [")
	first := true
	for _, n := range order {
		if strings.HasSuffix(n, "Type") {
			if !first {
				e.f(", ")
			}
			first = false
			e.f("(%s, %s)", leanStr(n), env[n].String())
		}
	}
	e.f("]\n")

	// ALL_CMD_INDEX = CommandIndex{^uint32(0), ^uint32(0), false}
	srv := parseFile("diam/server.go")
	allIdx := []string{unrec, unrec, unrec}
	if srv != nil {
		for _, d := range srv.Decls {
			gd, ok := d.(*ast.GenDecl)
			if !ok || gd.Tok != token.VAR {
				continue
			}
			for _, s := range gd.Specs {
				vs := s.(*ast.ValueSpec)
				for i, n := range vs.Names {
					if n.Name == "ALL_CMD_INDEX" && i < len(vs.Values) {
						if cl, ok := vs.Values[i].(*ast.CompositeLit); ok && len(cl.Elts) == 3 {
							for k := 0; k < 2; k++ {
								if v := evalConst(cl.Elts[k], constEnv{}, 0); v != nil {
									allIdx[k] = v.String()
								}
							}
							if id, ok := cl.Elts[2].(*ast.Ident); ok {
								if id.Name == "false" {
									allIdx[2] = "0"
								} else if id.Name == "true" {
									allIdx[2] = "1"
								}
							}
						}
					}
				}
			}
		}
	}
	e.f("/-- `ALL_CMD_INDEX` as (AppID, Code, Request) -/\ndef allCmdIndex : Nat × Nat × Nat := (%s, %s, %s)\n", allIdx[0], allIdx[1], allIdx[2])

	// channel capacities: make(chan T) / make(chan T, n) assigned to a given name
	e.f("def capErrorReports : Nat := %s\n", chanCap(srv, "NewServeMux", "e"))
	cli := parseFile("diam/sm/client.go")
	e.f("def capErrc : Nat := %s\n", chanCap(cli, "handshake", "errc"))
	e.f("def capDwac : Nat := %s\n", chanCap(cli, "handshake", "dwac"))

	// relay application id literal in smparser.validate: `id == 0x...`
	relay := unrec
	if fd := findFunc(parseFile("diam/sm/smparser/app.go"), "Application", "validate"); fd != nil {
		ast.Inspect(fd, func(n ast.Node) bool {
			if be, ok := n.(*ast.BinaryExpr); ok && be.Op == token.EQL {
				if id, ok := be.X.(*ast.Ident); ok && id.Name == "id" {
					if v := evalConst(be.Y, constEnv{}, 0); v != nil {
						relay = v.String()
					}
				}
			}
			return true
		})
	}
	e.f("def relayAppId : Nat := %s\n", relay)
	e.f("end Gen\n")
	e.write("Consts.lean")
}

// chanCap finds `name := make(chan ..[, n])`, `name = make(...)` or `name: make(...)` inside fn.
func chanCap(f *ast.File, fn, name string) string {
	if f == nil {
		return unrec
	}
	var fd *ast.FuncDecl
	for _, d := range f.Decls {
		if x, ok := d.(*ast.FuncDecl); ok && x.Name.Name == fn {
			fd = x
		}
	}
	if fd == nil {
		return unrec
	}
	res := unrec
	check := func(lhs string, rhs ast.Expr) {
		if lhs != name && !strings.HasSuffix(lhs, "."+name) { // a variable or a field of that name
			return
		}
		c, ok := rhs.(*ast.CallExpr)
		if !ok {
			return
		}
		if id, ok := c.Fun.(*ast.Ident); !ok || id.Name != "make" {
			return
		}
		if _, ok := c.Args[0].(*ast.ChanType); !ok {
			return
		}
		if len(c.Args) == 1 {
			res = "0"
		} else if v := evalConst(c.Args[1], constEnv{}, 0); v != nil {
			res = v.String()
		}
	}
	ast.Inspect(fd, func(n ast.Node) bool {
		switch x := n.(type) {
		case *ast.AssignStmt:
			for i, l := range x.Lhs {
				if i < len(x.Rhs) {
					check(exprString(l), x.Rhs[i])
				}
			}
		case *ast.KeyValueExpr:
			check(exprString(x.Key), x.Value)
		}
		return true
	})
	return res
}

func emitTables() {
	var e emitter
	e.f("/- generated by /verif/extract from %s — do not edit -/\nnamespace Gen\n", repo)
	env := constEnv{}
	dt := parseFile("diam/datatype/datatype.go")
	constsOf(dt, env, false)
	// datatype.Available
	e.f("/-- `datatype.Available`: type name → TypeID value -/\ndef available : List (String × Nat) := [")
	kv := mapLiteral(dt, "Available")
	var rows []string
	for _, p := range kv {
		k, _ := strconv.Unquote(exprString(p[0]))
		v := unrec
		if x := evalConst(p[1], env, 0); x != nil {
			v = x.String()
		}
		rows = append(rows, fmt.Sprintf("(%s, %s)", leanStr(k), v))
	}
	e.f("%s]\n", strings.Join(rows, ", "))
	// datatype.Decoder keys
	dec := parseFile("diam/datatype/decoder.go")
	var keys []string
	var decFns []string
	for _, p := range mapLiteral(dec, "Decoder") {
		v := unrec
		if x := evalConst(p[0], env, 0); x != nil {
			v = x.String()
		}
		keys = append(keys, v)
		decFns = append(decFns, fmt.Sprintf("(%s, %s)", v, leanStr(exprString(p[1]))))
	}
	e.f("/-- keys of `datatype.Decoder` -/\ndef decoderKeys : List Nat := [%s]\n", strings.Join(keys, ", "))
	e.f("/-- `datatype.Decoder`: TypeID → decode function name -/\ndef decoderFns : List (Nat × String) := [%s]\n", strings.Join(decFns, ", "))
	// parentAppIds
	util := parseFile("diam/dict/util.go")
	rows = nil
	for _, p := range mapLiteral(util, "parentAppIds") {
		a, b := evalConst(p[0], env, 0), evalConst(p[1], env, 0)
		if a != nil && b != nil {
			rows = append(rows, fmt.Sprintf("(%s, %s)", a, b))
		} else {
			rows = append(rows, fmt.Sprintf("(%s, %s)", unrec, unrec))
		}
	}
	e.f("/-- `dict.parentAppIds` -/\ndef parentAppIds : List (Nat × Nat) := [%s]\n", strings.Join(rows, ", "))

	// case list of marshal's `switch fieldAVP.Data.Type`
	rf := parseFile("diam/reflect.go")
	var cases []string
	if fd := findFunc(rf, "", "marshal"); fd != nil {
		ast.Inspect(fd, func(n ast.Node) bool {
			sw, ok := n.(*ast.SwitchStmt)
			if !ok || sw.Tag == nil || exprString(sw.Tag) != "fieldAVP.Data.Type" {
				return true
			}
			for _, c := range sw.Body.List {
				cc := c.(*ast.CaseClause)
				for _, x := range cc.List {
					s := exprString(x)
					s = strings.TrimPrefix(s, "datatype.")
					if v, ok := env[s]; ok {
						cases = append(cases, v.String())
					} else {
						cases = append(cases, unrec)
					}
				}
			}
			return false
		})
	}
	e.f("/-- TypeIDs handled by `marshal`'s switch over the dictionary type -/\ndef marshalCases : List Nat := [%s]\n", strings.Join(cases, ", "))

	// dataValueToString: (TypeID, asserted Go type) pairs
	pd := parseFile("diam/pretty_dump.go")
	rows = nil
	if fd := findFunc(pd, "", "dataValueToString"); fd != nil {
		ast.Inspect(fd, func(n ast.Node) bool {
			sw, ok := n.(*ast.SwitchStmt)
			if !ok {
				return true
			}
			for _, c := range sw.Body.List {
				cc := c.(*ast.CaseClause)
				asserted := ""
				for _, st := range cc.Body {
					ast.Inspect(st, func(m ast.Node) bool {
						if ta, ok := m.(*ast.TypeAssertExpr); ok && ta.Type != nil {
							asserted = exprString(ta.Type)
						}
						return true
					})
				}
				for _, x := range cc.List {
					s := strings.TrimPrefix(exprString(x), "datatype.")
					v := unrec
					if y, ok := env[s]; ok {
						v = y.String()
					}
					rows = append(rows, fmt.Sprintf("(%s, %s)", v, leanStr(asserted)))
				}
			}
			return false
		})
	}
	e.f("/-- `dataValueToString`: TypeID → Go type asserted (\"\" = no assertion) -/\ndef prettyAsserts : List (Nat × String) := [%s]\n", strings.Join(rows, ", "))

	// fixed-width decoders: expected length and the expression returned otherwise
	rows = nil
	files, _ := filepath.Glob(filepath.Join(repo, "diam/datatype/*.go"))
	sort.Strings(files)
	for _, p := range files {
		if strings.HasSuffix(p, "_test.go") {
			continue
		}
		rel, _ := filepath.Rel(repo, p)
		f := parseFile(rel)
		if f == nil {
			continue
		}
		for _, d := range f.Decls {
			fd, ok := d.(*ast.FuncDecl)
			if !ok || fd.Recv != nil || !strings.HasPrefix(fd.Name.Name, "Decode") || fd.Body == nil || len(fd.Body.List) == 0 {
				continue
			}
			ifs, ok := fd.Body.List[0].(*ast.IfStmt)
			if !ok {
				continue
			}
			be, ok := ifs.Cond.(*ast.BinaryExpr)
			if !ok || be.Op != token.NEQ || exprString(be.X) != "len(b)" {
				continue
			}
			w := unrec
			if v := evalConst(be.Y, constEnv{"net.IPv6len": big.NewInt(16)}, 0); v != nil {
				w = v.String()
			} else if exprString(be.Y) == "net.IPv6len" {
				w = "16"
			}
			ret := "?"
			if len(ifs.Body.List) == 1 {
				if rs, ok := ifs.Body.List[0].(*ast.ReturnStmt); ok && len(rs.Results) == 2 {
					ret = exprString(rs.Results[0]) + " / " + exprString(rs.Results[1])
				}
			}
			rows = append(rows, fmt.Sprintf("(%s, %s, %s)", leanStr(fd.Name.Name), w, leanStr(ret)))
		}
	}
	e.f("/-- fixed-width decoders: (function, required length, what is returned for any other length) -/\ndef fixedDecoders : List (String × Nat × String) := [%s]\n", strings.Join(rows, ", "))
	e.f("end Gen\n")
	e.write("Tables.lean")
}

// layoutOf collects (field, lo, hi) from statements of the forms
//   b[i] = h.F            / h.F = data[i]
//   copy(b[lo:hi], f(h.F)) / h.F = f(data[lo:hi])
//   binary.BigEndian.PutUintNN(b[lo:hi], h.F)
func layoutOf(fd *ast.FuncDecl, recvName string) []string {
	var rows []string
	if fd == nil || fd.Body == nil {
		return []string{fmt.Sprintf("(%s, %s, %s)", leanStr("unrecognised"), unrec, unrec)}
	}
	fieldOf := func(e ast.Expr) string {
		f := ""
		ast.Inspect(e, func(n ast.Node) bool {
			if se, ok := n.(*ast.SelectorExpr); ok {
				if id, ok := se.X.(*ast.Ident); ok && id.Name == recvName {
					f = se.Sel.Name
				}
			}
			return true
		})
		return f
	}
	rangeOf := func(e ast.Expr) (string, string, bool) {
		lo, hi, ok := "", "", false
		ast.Inspect(e, func(n ast.Node) bool {
			switch x := n.(type) {
			case *ast.SliceExpr:
				if x.Low != nil && x.High != nil {
					a, b := evalConst(x.Low, constEnv{}, 0), evalConst(x.High, constEnv{}, 0)
					if a != nil && b != nil {
						lo, hi, ok = a.String(), b.String(), true
					}
				}
			case *ast.IndexExpr:
				if a := evalConst(x.Index, constEnv{}, 0); a != nil {
					lo, hi, ok = a.String(), new(big.Int).Add(a, big.NewInt(1)).String(), true
				}
			}
			return true
		})
		return lo, hi, ok
	}
	var stmts []ast.Stmt
	var flat func(l []ast.Stmt)
	flat = func(l []ast.Stmt) {
		for _, st := range l {
			if is, ok := st.(*ast.IfStmt); ok {
				flat(is.Body.List)
				continue
			}
			stmts = append(stmts, st)
		}
	}
	flat(fd.Body.List)
	for _, st := range stmts {
		var lhs, rhs ast.Expr
		switch x := st.(type) {
		case *ast.AssignStmt:
			if len(x.Lhs) == 1 && len(x.Rhs) == 1 {
				lhs, rhs = x.Lhs[0], x.Rhs[0]
			}
		case *ast.ExprStmt:
			if c, ok := x.X.(*ast.CallExpr); ok && len(c.Args) == 2 {
				lhs, rhs = c.Args[0], c.Args[1]
			}
		}
		if lhs == nil {
			continue
		}
		f := fieldOf(lhs)
		other := rhs
		if f == "" {
			f = fieldOf(rhs)
			other = lhs
		}
		if f == "" {
			continue
		}
		lo, hi, ok := rangeOf(other)
		if !ok {
			continue
		}
		rows = append(rows, fmt.Sprintf("(%s, %s, %s)", leanStr(f), lo, hi))
	}
	return rows
}

func emitLayout() {
	var e emitter
	e.f("/- generated by /verif/extract from %s — do not edit -/\nnamespace Gen\n", repo)
	h := parseFile("diam/header.go")
	e.f("/-- header layout read off `Header.SerializeTo`: (field, first byte, one past last byte) -/\ndef hdrLayoutEnc : List (String × Nat × Nat) := [%s]\n",
		strings.Join(layoutOf(findFunc(h, "Header", "SerializeTo"), "h"), ", "))
	e.f("/-- header layout read off `Header.DecodeFromBytes` -/\ndef hdrLayoutDec : List (String × Nat × Nat) := [%s]\n",
		strings.Join(layoutOf(findFunc(h, "Header", "DecodeFromBytes"), "h"), ", "))
	a := parseFile("diam/avp.go")
	e.f("/-- AVP header layout read off `AVP.SerializeTo` -/\ndef avpLayoutEnc : List (String × Nat × Nat) := [%s]\n",
		strings.Join(layoutOf(findFunc(a, "AVP", "SerializeTo"), "a"), ", "))
	e.f("/-- AVP header layout read off `AVP.DecodeFromBytes` -/\ndef avpLayoutDec : List (String × Nat × Nat) := [%s]\n",
		strings.Join(layoutOf(findFunc(a, "AVP", "DecodeFromBytes"), "a"), ", "))
	e.f("end Gen\n")
	e.write("Layout.lean")
}

// ---------------------------------------------------------------- arithmetic kernels

// toLean translates a straight-line integer expression over the given variables to a Lean
// `Int` term. `x & (2^k-1)` becomes `x % 2^k` (two's complement), shifts become
// multiplication/division by powers of two, `|` of terms is kept as `Int.lor`-free only when
// it is recognisably a sum of disjoint shifted bytes (handled by the caller's theorem).
func toLean(e ast.Expr, ok *bool) string {
	switch x := e.(type) {
	case *ast.BasicLit:
		if x.Kind == token.INT {
			v := new(big.Int)
			if _, good := v.SetString(x.Value, 0); good {
				return "(" + v.String() + " : Int)"
			}
		}
	case *ast.Ident:
		return x.Name
	case *ast.ParenExpr:
		return "(" + toLean(x.X, ok) + ")"
	case *ast.CallExpr:
		if len(x.Args) == 1 { // conversion
			if id, isId := x.Fun.(*ast.Ident); isId {
				switch id.Name {
				case "uint32":
					return "((" + toLean(x.Args[0], ok) + ") % 4294967296)"
				case "uint8", "byte":
					return "((" + toLean(x.Args[0], ok) + ") % 256)"
				case "int", "int64", "uint64", "uint":
					return "(" + toLean(x.Args[0], ok) + ")"
				}
			}
		}
	case *ast.IndexExpr:
		if id, isId := x.X.(*ast.Ident); isId {
			if v := evalConst(x.Index, constEnv{}, 0); v != nil {
				return id.Name + v.String()
			}
		}
	case *ast.BinaryExpr:
		a, b := toLean(x.X, ok), toLean(x.Y, ok)
		switch x.Op {
		case token.ADD:
			return "(" + a + " + " + b + ")"
		case token.SUB:
			return "(" + a + " - " + b + ")"
		case token.MUL:
			return "(" + a + " * " + b + ")"
		case token.AND:
			if v := evalConst(x.Y, constEnv{}, 0); v != nil {
				m := new(big.Int).Add(v, big.NewInt(1))
				if m.BitLen() > 0 && new(big.Int).And(m, v).Sign() == 0 { // v = 2^k-1
					return "(" + a + " % " + m.String() + ")"
				}
			}
		case token.SHL:
			if v := evalConst(x.Y, constEnv{}, 0); v != nil {
				return "(" + a + " * " + new(big.Int).Lsh(big.NewInt(1), uint(v.Int64())).String() + ")"
			}
		case token.SHR:
			if v := evalConst(x.Y, constEnv{}, 0); v != nil {
				return "(" + a + " / " + new(big.Int).Lsh(big.NewInt(1), uint(v.Int64())).String() + ")"
			}
		case token.OR:
			// bitwise or of byte-aligned disjoint terms: emitted as Int.lor-free `bor`
			return "(bor " + a + " " + b + ")"
		}
	}
	*ok = false
	return "(" + unrec + " : Int)"
}

func singleReturn(fd *ast.FuncDecl) ast.Expr {
	if fd == nil || fd.Body == nil {
		return nil
	}
	last := fd.Body.List[len(fd.Body.List)-1]
	if rs, ok := last.(*ast.ReturnStmt); ok && len(rs.Results) == 1 {
		return rs.Results[0]
	}
	return nil
}

func emitArith() {
	var e emitter
	e.f("/- generated by /verif/extract from %s — do not edit -/\nnamespace Gen\n", repo)
	e.f("/-- bitwise or on the Int terms produced by the translator (only used on non-negative values) -/\ndef bor (a b : Int) : Int := Int.ofNat (a.toNat ||| b.toNat)\n")
	ok := true
	// pad4
	if r := singleReturn(findFunc(parseFile("diam/datatype/pad.go"), "", "pad4")); r != nil {
		e.f("/-- body of `datatype.pad4` -/\ndef pad4 (n : Int) : Int := %s\n", toLean(r, &ok))
	} else {
		e.f("def pad4 (n : Int) : Int := %s\n", unrec)
	}
	uc := parseFile("diam/uintconv.go")
	if r := singleReturn(findFunc(uc, "", "uint24to32")); r != nil {
		e.f("/-- returned expression of `uint24to32` (for a 3-byte argument) -/\ndef uint24to32 (b0 b1 b2 : Int) : Int := %s\n", toLean(r, &ok))
	} else {
		e.f("def uint24to32 (b0 b1 b2 : Int) : Int := %s\n", unrec)
	}
	// uint32to24: []byte{uint8(n >> 16), uint8(n >> 8), uint8(n)}
	u := []string{unrec, unrec, unrec}
	if r := singleReturn(findFunc(uc, "", "uint32to24")); r != nil {
		if cl, isCl := r.(*ast.CompositeLit); isCl && len(cl.Elts) == 3 {
			for i := 0; i < 3; i++ {
				u[i] = toLean(cl.Elts[i], &ok)
			}
		}
	}
	e.f("/-- the three bytes of `uint32to24` -/\ndef uint32to24 (n : Int) : List Int := [%s, %s, %s]\n", u[0], u[1], u[2])
	// Time.Serialize: PutUint32(b, <expr>)
	tf := parseFile("diam/datatype/time.go")
	enc := unrec
	if fd := findFunc(tf, "Time", "Serialize"); fd != nil {
		ast.Inspect(fd, func(n ast.Node) bool {
			if c, isC := n.(*ast.CallExpr); isC && strings.HasSuffix(exprString(c.Fun), "PutUint32") && len(c.Args) == 2 {
				// uint32(time.Time(t).Unix())+rfc868offset
				good := true
				s := toLeanTime(c.Args[1], &good)
				if good {
					enc = s
				}
			}
			return true
		})
	}
	e.f("/-- value written by `Time.Serialize` for Unix time `unix` (before the final uint32 truncation) -/\ndef timeEnc (unix : Int) (rfc868offset : Int) : Int := %s\n", enc)
	// DecodeTime: the two branches
	br := []string{unrec, unrec}
	if fd := findFunc(tf, "", "DecodeTime"); fd != nil {
		i := 0
		ast.Inspect(fd, func(n ast.Node) bool {
			if c, isC := n.(*ast.CallExpr); isC && exprString(c.Fun) == "time.Unix" && len(c.Args) == 2 && i < 2 {
				good := true
				s := toLeanTime(c.Args[0], &good)
				if good {
					br[i] = s
				}
				i++
			}
			return true
		})
	}
	e.f("/-- `DecodeTime`, MSB clear: Unix seconds for the 32-bit wire value `n` -/\ndef timeDecLow (n : Int) (rfc868offset rfc2030offset : Int) : Int := %s\n", br[0])
	e.f("/-- `DecodeTime`, MSB set -/\ndef timeDecHigh (n : Int) (rfc868offset rfc2030offset : Int) : Int := %s\n", br[1])
	e.f("end Gen\n")
	e.write("Arith.lean")
}

// toLeanTime: like toLean, with `time.Time(t).Unix()` ↦ unix and
// `binary.BigEndian.Uint32(b)` ↦ n.
func toLeanTime(e ast.Expr, ok *bool) string {
	switch x := e.(type) {
	case *ast.CallExpr:
		s := exprString(x)
		if s == "time.Time(t).Unix()" {
			return "unix"
		}
		if s == "binary.BigEndian.Uint32(b)" {
			return "n"
		}
		if len(x.Args) == 1 {
			if id, isId := x.Fun.(*ast.Ident); isId {
				switch id.Name {
				case "uint32":
					return "((" + toLeanTime(x.Args[0], ok) + ") % 4294967296)"
				case "int64", "int":
					return "(" + toLeanTime(x.Args[0], ok) + ")"
				}
			}
		}
	case *ast.BinaryExpr:
		a, b := toLeanTime(x.X, ok), toLeanTime(x.Y, ok)
		switch x.Op {
		case token.ADD:
			return "(" + a + " + " + b + ")"
		case token.SUB:
			return "(" + a + " - " + b + ")"
		}
	case *ast.Ident:
		if x.Name == "rfc868offset" || x.Name == "rfc2030offset" {
			return x.Name
		}
	case *ast.ParenExpr:
		return "(" + toLeanTime(x.X, ok) + ")"
	}
	*ok = false
	return "(" + unrec + " : Int)"
}

// ---------------------------------------------------------------- embedded dictionaries

func emitDict() {
	var e emitter
	e.f("/- generated by /verif/extract from %s — do not edit -/\nnamespace Gen\n", repo)
	def := parseFile("diam/dict/default.go")
	vars := stringConstVars(def)
	// load order of init(): composite literal elements {"Name", xmlVar}
	var order []string
	if fd := findFunc(def, "", "init"); fd != nil {
		ast.Inspect(fd, func(n ast.Node) bool {
			cl, ok := n.(*ast.CompositeLit)
			if !ok || len(cl.Elts) != 2 {
				return true
			}
			if _, isLit := cl.Elts[0].(*ast.BasicLit); isLit {
				if id, isId := cl.Elts[1].(*ast.Ident); isId {
					order = append(order, id.Name)
				}
			}
			return true
		})
	}
	e.f("/-- XML variables loaded by `dict.init()`, in order (interned) -/\ndef dictLoadOrder : List Nat := %s\n", natList(mapInts(order, intern)))
	e.f("/-- one `<avp>`: (name, code, vendor-id, must contains \"M\", type name, number of item / rule children) -/\nabbrev AvpRow := Nat × Nat × Nat × Bool × Nat × Nat\n")
	e.f("/-- one `<command>`: (code, short, #request rules, #answer rules) -/\nabbrev CmdRow := Nat × Nat × Nat × Nat\n")
	e.f("/-- one `<application>`: (id, type, vendor ids, commands, avps) -/\nabbrev AppRow := Nat × Nat × List Nat × List CmdRow × List AvpRow\n")
	var fileDefs []string
	// flat join for C17(e): (kind, derived constant name, code)
	for fi, v := range order {
		src, ok := vars[v]
		if !ok {
			e.f("def dictFile%d : List AppRow := [] -- unrecognised %s\n", fi, v)
			fileDefs = append(fileDefs, fmt.Sprintf("dictFile%d", fi))
			continue
		}
		var xf xFile
		if err := xml.Unmarshal([]byte(src), &xf); err != nil {
			e.f("def dictFile%d : List AppRow := [] -- xml error\n", fi)
			fileDefs = append(fileDefs, fmt.Sprintf("dictFile%d", fi))
			continue
		}
		var appNames []string
		for ai, app := range xf.App {
			// chunk avps to keep list literals small
			var chunks []string
			for c := 0; c*200 < len(app.AVP); c++ {
				hi := (c + 1) * 200
				if hi > len(app.AVP) {
					hi = len(app.AVP)
				}
				var rows []string
				for _, a := range app.AVP[c*200 : hi] {
					rows = append(rows, fmt.Sprintf("(%d, %d, %d, %v, %d, %d)", intern(a.Name), a.Code, a.VendorID, strings.Contains(a.Must, "M"), intern(a.Data.TypeName), len(a.Data.Item)+len(a.Data.Rule)))
				}
				nm := fmt.Sprintf("dictFile%dApp%dAvps%d", fi, ai, c)
				e.f("def %s : List AvpRow := [%s]\n", nm, strings.Join(rows, ",\n  "))
				chunks = append(chunks, nm)
			}
			if len(chunks) == 0 {
				chunks = []string{"([] : List AvpRow)"}
			}
			var cmds []string
			for _, c := range app.Command {
				cmds = append(cmds, fmt.Sprintf("(%d, %d, %d, %d)", c.Code, intern(c.Short), len(c.Request.Rule), len(c.Answer.Rule)))
			}
			var vendors []int
			for _, vd := range app.Vendor {
				vendors = append(vendors, int(vd.ID))
			}
			nm := fmt.Sprintf("dictFile%dApp%d", fi, ai)
			e.f("def %s : AppRow := (%d, %d, %s, [%s], %s)\n", nm, app.ID, intern(app.Type), natList(vendors), strings.Join(cmds, ", "), strings.Join(chunks, " ++ "))
			appNames = append(appNames, nm)
		}
		e.f("def dictFile%d : List AppRow := [%s]\n", fi, strings.Join(appNames, ", "))
		fileDefs = append(fileDefs, fmt.Sprintf("dictFile%d", fi))
	}
	e.f("/-- the embedded dictionaries in load order -/\ndef dictFiles : List (List AppRow) := [%s]\n", strings.Join(fileDefs, ", "))
	// interned ids of the type names
	e.f("/-- interned ids of the keys of `datatype.Available` -/\ndef availableIds : List (Nat × Nat) := [")
	env := constEnv{}
	dt := parseFile("diam/datatype/datatype.go")
	constsOf(dt, env, false)
	var rows []string
	for _, p := range mapLiteral(dt, "Available") {
		k, _ := strconv.Unquote(exprString(p[0]))
		v := unrec
		if x := evalConst(p[1], env, 0); x != nil {
			v = x.String()
		}
		rows = append(rows, fmt.Sprintf("(%d, %s)", intern(k), v))
	}
	e.f("%s]\n", strings.Join(rows, ", "))
	e.f("def strM : Nat := %d\ndef strAuth : Nat := %d\ndef strAcct : Nat := %d\n", intern("M"), intern("auth"), intern("acct"))

	// exported code constants joined with the dictionary (C17 e)
	emitCodes(&e, order, vars)
	e.f("end Gen\n")
	e.write("Dict.lean")
}

func mapInts(xs []string, f func(string) int) []int {
	var out []int
	for _, x := range xs {
		out = append(out, f(x))
	}
	return out
}

// autogen.sh naming for avp/codes.go: sed 's/-Id\([-"s]\)/-ID\1/g; s/-//g' - "-Id" followed by
// '-', the end of the name or 's' becomes "-ID", then every '-' is removed.
func goNameAVP(s string) string {
	t := s + "\""
	var b strings.Builder
	for i := 0; i < len(t); {
		if strings.HasPrefix(t[i:], "-Id") && i+3 < len(t) && (t[i+3] == '-' || t[i+3] == '"' || t[i+3] == 's') {
			b.WriteString("-ID")
			i += 3
			continue
		}
		b.WriteByte(t[i])
		i++
	}
	r := strings.TrimSuffix(b.String(), "\"")
	return strings.ReplaceAll(r, "-", "")
}

// commands.go: sed 's/-//g'
func goNameCmd(s string) string { return strings.ReplaceAll(s, "-", "") }

// applications.go: spaces inside the quoted name become '_', the name is upper-cased, "_APP_ID" appended
func goNameApp(s string) string {
	return strings.ToUpper(strings.ReplaceAll(s, " ", "_")) + "_APP_ID"
}

func emitCodes(e *emitter, order []string, vars map[string]string) {
	envAvp := constEnv{}
	constsOf(parseFile("diam/avp/codes.go"), envAvp, false)
	envCmd := constEnv{}
	constsOf(parseFile("diam/commands.go"), envCmd, false)
	// (interned name, dictionary code, exported constant value or unrecognised when absent)
	seen := map[string]bool{}
	var rows []string
	var crow []string
	for _, v := range order {
		var xf xFile
		if err := xml.Unmarshal([]byte(vars[v]), &xf); err != nil {
			continue
		}
		for _, app := range xf.App {
			for _, a := range app.AVP {
				key := fmt.Sprintf("%s/%d", a.Name, a.Code)
				if seen[key] {
					continue
				}
				seen[key] = true
				val := unrec
				if x, ok := envAvp[goNameAVP(a.Name)]; ok {
					val = x.String()
				}
				rows = append(rows, fmt.Sprintf("(%d, %d, %s)", intern(a.Name), a.Code, val))
			}
			for _, c := range app.Command {
				key := fmt.Sprintf("cmd/%s/%d", c.Name, c.Code)
				if seen[key] {
					continue
				}
				seen[key] = true
				val := unrec
				if x, ok := envCmd[goNameCmd(c.Name)]; ok {
					val = x.String()
				}
				crow = append(crow, fmt.Sprintf("(%d, %d, %s)", intern(c.Name), c.Code, val))
			}
		}
	}
	for c := 0; c*200 < len(rows); c++ {
		hi := (c + 1) * 200
		if hi > len(rows) {
			hi = len(rows)
		}
		e.f("def avpCodeJoin%d : List (Nat × Nat × Nat) := [%s]\n", c, strings.Join(rows[c*200:hi], ",\n  "))
	}
	var parts []string
	for c := 0; c*200 < len(rows); c++ {
		parts = append(parts, fmt.Sprintf("avpCodeJoin%d", c))
	}
	if len(parts) == 0 {
		parts = []string{"[]"}
	}
	e.f("/-- every distinct (AVP name, code) of the embedded dictionaries with the value of the exported constant of the derived name -/\ndef avpCodeJoin : List (Nat × Nat × Nat) := %s\n", strings.Join(parts, " ++ "))
	e.f("/-- same for commands -/\ndef cmdCodeJoin : List (Nat × Nat × Nat) := [%s]\n", strings.Join(crow, ", "))
	envApp := constEnv{}
	constsOf(parseFile("diam/applications.go"), envApp, false)
	var arow []string
	aseen := map[string]bool{}
	for _, v := range order {
		var xf xFile
		if err := xml.Unmarshal([]byte(vars[v]), &xf); err != nil {
			continue
		}
		for _, app := range xf.App {
			if aseen[app.Name] {
				continue
			}
			aseen[app.Name] = true
			val := unrec
			if x, ok := envApp[goNameApp(app.Name)]; ok {
				val = x.String()
			}
			arow = append(arow, fmt.Sprintf("(%d, %d, %s)", intern(app.Name), app.ID, val))
		}
	}
	e.f("/-- applications: (name, id in the dictionary, value of <NAME>_APP_ID or unrecognised when absent) -/\ndef appCodeJoin : List (Nat × Nat × Nat) := [%s]\n", strings.Join(arow, ", "))
}

// ---------------------------------------------------------------- structural facts

// callsOfFunc lists the calls of the plain function `name` inside fd
func callsOfFunc(fd *ast.FuncDecl, name string) []string {
	var res []string
	if fd == nil {
		return res
	}
	ast.Inspect(fd, func(n ast.Node) bool {
		if c, ok := n.(*ast.CallExpr); ok {
			if id, ok := c.Fun.(*ast.Ident); ok && id.Name == name {
				res = append(res, exprString(c))
			}
		}
		return true
	})
	return res
}

// exprString2 renders a statement of a select's comm clause
func exprString2(st ast.Stmt) string {
	switch x := st.(type) {
	case *ast.ExprStmt:
		return exprString(x.X)
	case *ast.AssignStmt:
		var r []string
		for _, e := range x.Rhs {
			r = append(r, exprString(e))
		}
		return strings.Join(r, ",")
	case *ast.SendStmt:
		return exprString(x.Chan) + "<-" + exprString(x.Value)
	}
	return ""
}

func boolLean(b bool) string {
	if b {
		return "true"
	}
	return "false"
}

// declStmts wraps every function body of a file into one statement list (for whole-file call searches)
func declStmts(f *ast.File) []ast.Stmt {
	var out []ast.Stmt
	for _, d := range f.Decls {
		if fd, ok := d.(*ast.FuncDecl); ok && fd.Body != nil {
			out = append(out, fd.Body)
		}
	}
	return out
}

func emitStruct() {
	var e emitter
	e.f("/- generated by /verif/extract from %s — do not edit -/\nnamespace Gen\n", repo)
	msg := parseFile("diam/message.go")
	grp := parseFile("diam/group.go")
	// cursor advance expression in decodeAVPs / DecodeGrouped: `n += <expr>`
	adv := func(fd *ast.FuncDecl) string {
		res := "unrecognised"
		if fd == nil {
			return res
		}
		ast.Inspect(fd, func(n ast.Node) bool {
			if as, ok := n.(*ast.AssignStmt); ok && as.Tok == token.ADD_ASSIGN && len(as.Lhs) == 1 && exprString(as.Lhs[0]) == "n" {
				res = exprString(as.Rhs[0])
			}
			return true
		})
		return res
	}
	e.f("/-- `n += …` in `Message.decodeAVPs` -/\ndef cursorAdvanceMsg : String := %s\n", leanStr(adv(findFunc(msg, "Message", "decodeAVPs"))))
	e.f("/-- `n += …` in `diam.DecodeGrouped` -/\ndef cursorAdvanceGroup : String := %s\n", leanStr(adv(findFunc(grp, "", "DecodeGrouped"))))
	// body of wireLen
	wl := "unrecognised"
	if r := singleReturn(findFunc(parseFile("diam/avp.go"), "AVP", "wireLen")); r != nil {
		wl = exprString(r)
	}
	e.f("/-- returned expression of `AVP.wireLen` -/\ndef wireLenExpr : String := %s\n", leanStr(wl))

	// multistream reads: how readHeader / readBody / conn.readMessage / ReadAtLeast use the streams
	callsOf := func(fd *ast.FuncDecl, sel string) []string {
		var res []string
		if fd == nil {
			return []string{"unrecognised"}
		}
		ast.Inspect(fd, func(n ast.Node) bool {
			if c, ok := n.(*ast.CallExpr); ok {
				if se, ok := c.Fun.(*ast.SelectorExpr); ok && se.Sel.Name == sel {
					res = append(res, exprString(c))
				}
			}
			return true
		})
		return res
	}
	strList := func(xs []string) string {
		var q []string
		for _, x := range xs {
			q = append(q, leanStr(x))
		}
		return "[" + strings.Join(q, ", ") + "]"
	}
	e.f("/-- `ReadAtLeast` calls in `Message.readHeader` / `readBody`, `SetCurrentStream` calls in readHeader -/\n")
	e.f("def sctpHeaderReads : List String := %s\n", strList(callsOf(findFunc(msg, "Message", "readHeader"), "ReadAtLeast")))
	e.f("def sctpHeaderPins : List String := %s\n", strList(callsOf(findFunc(msg, "Message", "readHeader"), "SetCurrentStream")))
	bodyReads := callsOf(findFunc(msg, "Message", "readBody"), "ReadAtLeast")
	if len(bodyReads) == 0 {
		bodyReads = callsOf(findFunc(msg, "", "readBodyBytes"), "ReadAtLeast")
	}
	e.f("def sctpBodyReads : List String := %s\n", strList(bodyReads))
	sctpf := parseFile("diam/network_sctp.go")
	e.f("/-- stream-level reads inside `SCTPConn.ReadAtLeast` -/\ndef sctpAtLeastReads : List String := %s\n",
		strList(append(callsOf(findFunc(sctpf, "SCTPConn", "ReadAtLeast"), "ReadAny"), callsOf(findFunc(sctpf, "SCTPConn", "ReadAtLeast"), "ReadStream")...)))
	e.f("/-- `ResetCurrentStream` calls in `conn.readMessage` -/\ndef connResetsStream : List String := %s\n",
		strList(callsOf(findFunc(parseFile("diam/server.go"), "conn", "readMessage"), "ResetCurrentStream")))
	e.f("/-- `SCTPWrite` argument of `SCTPConn.WriteStream` and the stream assignment -/\ndef sctpWriteStreamCalls : List String := %s\n",
		strList(callsOf(findFunc(sctpf, "SCTPConn", "WriteStream"), "SCTPWrite")))

	// message.go: is a large body read piecewise (memory grows with the data received), and in
	// pieces of what size?  0 = the whole declared length is allocated at once
	chunk := 0
	if fd := findFunc(msg, "", "readBodyBytes"); fd != nil {
		hasLoop := false
		ast.Inspect(fd, func(n ast.Node) bool {
			if _, ok := n.(*ast.ForStmt); ok {
				hasLoop = true
			}
			return true
		})
		usedByReadBody := len(callsOfFunc(findFunc(msg, "Message", "readBody"), "readBodyBytes")) == 1
		if hasLoop && usedByReadBody {
			env := constEnv{}
			for _, c := range constsOf(msg, env, false) {
				_ = c
			}
			if v, ok := env["bodyChunkLength"]; ok && v != nil && v.IsInt64() {
				chunk = int(v.Int64())
			}
		}
	}
	e.f("/-- `readBodyBytes`: size of the pieces in which a large body is read (0: not read piecewise) -/\ndef bodyChunkLength : Nat := %d\n", chunk)

	// conn.serve: is the handler call a plain expression statement inside the for loop?
	srv := parseFile("diam/server.go")
	syncDispatch, goServe := false, 0
	if fd := findFunc(srv, "conn", "serve"); fd != nil {
		ast.Inspect(fd, func(n ast.Node) bool {
			if fs, ok := n.(*ast.ForStmt); ok {
				for _, st := range fs.Body.List {
					if es, ok := st.(*ast.ExprStmt); ok {
						if strings.Contains(exprString(es.X), "ServeDIAM") {
							syncDispatch = true
						}
					}
				}
			}
			return true
		})
	}
	for _, rel := range []string{"diam/server.go", "diam/client.go"} {
		f := parseFile(rel)
		if f == nil {
			continue
		}
		ast.Inspect(f, func(n ast.Node) bool {
			if g, ok := n.(*ast.GoStmt); ok && exprString(g.Call.Fun) == "c.serve" {
				goServe++
			}
			return true
		})
	}
	e.f("/-- in `conn.serve` the handler is called as a plain statement inside the read loop -/\ndef serveDispatchSync : Bool := %s\n", boolLean(syncDispatch))
	e.f("/-- number of `go c.serve()` statements in server.go and client.go -/\ndef goServeSites : Nat := %d\n", goServe)

	// response.Write: first statement Lock, second deferred Unlock, contains Write and Flush
	wLocked := false
	if fd := findFunc(srv, "response", "Write"); fd != nil && len(fd.Body.List) >= 2 {
		s0, ok0 := fd.Body.List[0].(*ast.ExprStmt)
		s1, ok1 := fd.Body.List[1].(*ast.DeferStmt)
		if ok0 && ok1 && exprString(s0.X) == "w.mu.Lock()" && exprString(s1.Call) == "w.mu.Unlock()" {
			hasW, hasF := false, false
			ast.Inspect(fd, func(n ast.Node) bool {
				if c, ok := n.(*ast.CallExpr); ok {
					s := exprString(c.Fun)
					if strings.HasSuffix(s, "Writer.Write") {
						hasW = true
					}
					if strings.HasSuffix(s, "Writer.Flush") {
						hasF = true
					}
				}
				return true
			})
			wLocked = hasW && hasF
		}
	}
	e.f("/-- `response.Write` holds `w.mu` (Lock; defer Unlock) around both the buffered Write and the Flush -/\ndef responseWriteLocked : Bool := %s\n", boolLean(wLocked))

	// ServeMux.ServeDIAM: RLock + deferred RUnlock
	rl := false
	if fd := findFunc(srv, "ServeMux", "ServeDIAM"); fd != nil && len(fd.Body.List) >= 2 {
		s0, ok0 := fd.Body.List[0].(*ast.ExprStmt)
		s1, ok1 := fd.Body.List[1].(*ast.DeferStmt)
		rl = ok0 && ok1 && exprString(s0.X) == "mux.mu.RLock()" && exprString(s1.Call) == "mux.mu.RUnlock()"
	}
	e.f("/-- `ServeMux.ServeDIAM` takes the mux lock in read mode and releases it by defer -/\ndef muxServeRLockDeferred : Bool := %s\n", boolLean(rl))

	// conn.serve: deferred func contains recover(), c.rwc.Close(), c.notifyClientGone()
	hasRecover, hasClose, hasNotify := false, false, false
	if fd := findFunc(srv, "conn", "serve"); fd != nil && len(fd.Body.List) > 0 {
		if ds, ok := fd.Body.List[0].(*ast.DeferStmt); ok {
			ast.Inspect(ds, func(n ast.Node) bool {
				if c, ok := n.(*ast.CallExpr); ok {
					switch exprString(c.Fun) {
					case "recover":
						hasRecover = true
					case "c.rwc.Close":
						hasClose = true
					case "c.notifyClientGone":
						hasNotify = true
					}
				}
				return true
			})
		}
	}
	e.f("def serveDeferRecover : Bool := %s\ndef serveDeferClose : Bool := %s\ndef serveDeferNotify : Bool := %s\n", boolLean(hasRecover), boolLean(hasClose), boolLean(hasNotify))

	// slice-typed decoders: does the returned value alias the parameter?
	alias := func(rel, fn string) string {
		fd := findFunc(parseFile(rel), "", fn)
		if fd == nil {
			return "unrecognised"
		}
		res := "copy"
		ast.Inspect(fd, func(n ast.Node) bool {
			rs, ok := n.(*ast.ReturnStmt)
			if !ok || len(rs.Results) != 2 {
				return true
			}
			s := exprString(rs.Results[0])
			switch {
			case s == "nil":
			case strings.Contains(s, "append([]byte(nil)") || strings.Contains(s, "bytes.Clone("):
			case strings.Contains(s, "make("), strings.Contains(s, "lit"):
			case strings.HasSuffix(s, "(b)") || strings.Contains(s, "(b["):
				res = "alias"
			default:
				res = "unrecognised:" + s
			}
			return true
		})
		return res
	}
	e.f("/-- per slice-typed decoder: \"copy\", \"alias\" or \"unrecognised…\" -/\ndef decoderAliasing : List (String × String) := [")
	var rows []string
	for _, p := range [][2]string{{"diam/datatype/address.go", "DecodeAddress"}, {"diam/datatype/unknown.go", "DecodeUnknown"}, {"diam/datatype/ipv4.go", "DecodeIPv4"}, {"diam/datatype/ipv6.go", "DecodeIPv6"}} {
		rows = append(rows, fmt.Sprintf("(%s, %s)", leanStr(p[1]), leanStr(alias(p[0], p[1]))))
	}
	e.f("%s]\n", strings.Join(rows, ", "))
	// every data type of package datatype whose Go representation can share memory with the
	// decoder's argument: `type X []byte`, `type X net.IP` (anything that is not a string, a
	// number, or time.Time), with the aliasing class of its decoder `DecodeX`
	var kinded []string
	type tdef struct{ rel, name, under string }
	var tdefs []tdef
	under := map[string]string{}
	if ents, err := os.ReadDir(filepath.Join(repo, "diam/datatype")); err == nil {
		for _, ent := range ents {
			if !strings.HasSuffix(ent.Name(), ".go") || strings.HasSuffix(ent.Name(), "_test.go") {
				continue
			}
			rel := "diam/datatype/" + ent.Name()
			for _, d := range parseFile(rel).Decls {
				gd, ok := d.(*ast.GenDecl)
				if !ok || gd.Tok != token.TYPE {
					continue
				}
				for _, sp := range gd.Specs {
					ts := sp.(*ast.TypeSpec)
					if _, isIface := ts.Type.(*ast.InterfaceType); isIface {
						continue
					}
					if _, isFunc := ts.Type.(*ast.FuncType); isFunc {
						continue
					}
					u := exprString(ts.Type)
					under[ts.Name.Name] = u
					tdefs = append(tdefs, tdef{rel, ts.Name.Name, u})
				}
			}
		}
	}
	for _, td := range tdefs {
		u := td.under
		for i := 0; i < 10; i++ { // follow `type A B` chains inside the package
			if v, ok := under[u]; ok {
				u = v
			} else {
				break
			}
		}
		switch u {
		case "string", "uint32", "uint64", "int32", "int64", "float32", "float64", "time.Time", "int":
			continue
		}
		kinded = append(kinded, fmt.Sprintf("(%s, %s, %s)", leanStr(td.name), leanStr(u), leanStr(alias(td.rel, "Decode"+td.name))))
	}
	sort.Strings(kinded)
	// string-kinded data types: every return of DecodeX must be a chain of conversions of the
	// parameter to package-local string types (`T(b)`, `T(OctetString(b))`): Go copies there
	var strdec []string
	for _, td := range tdefs {
		u := td.under
		for i := 0; i < 10; i++ {
			if v, ok := under[u]; ok {
				u = v
			} else {
				break
			}
		}
		if u != "string" {
			continue
		}
		cls := "unrecognised"
		if fd := findFunc(parseFile(td.rel), "", "Decode"+td.name); fd != nil {
			cls = "conversion"
			ast.Inspect(fd, func(n ast.Node) bool {
				rs, ok := n.(*ast.ReturnStmt)
				if !ok || len(rs.Results) != 2 {
					return true
				}
				x := rs.Results[0]
				for {
					c, ok := x.(*ast.CallExpr)
					if !ok || len(c.Args) != 1 {
						break
					}
					id, ok := c.Fun.(*ast.Ident)
					if !ok {
						break
					}
					if _, isT := under[id.Name]; !isT && id.Name != "string" {
						break
					}
					x = c.Args[0]
				}
				if id, ok := x.(*ast.Ident); !(ok && (id.Name == "b" || id.Name == "nil")) {
					cls = "unrecognised:" + exprString(rs.Results[0])
				}
				return true
			})
		}
		strdec = append(strdec, fmt.Sprintf("(%s, %s)", leanStr(td.name), leanStr(cls)))
	}
	sort.Strings(strdec)
	e.f("/-- string-kinded data types and the form of what DecodeX returns (\"conversion\" = conversions of the parameter to string types only) -/\ndef stringDecoders : List (String × String) := [%s]\n", strings.Join(strdec, ", "))
	// files of the codec packages importing "unsafe" (a string or slice built there can share memory)
	var unsafeFiles []string
	codecFile := func(dir, name string) bool {
		if dir == "diam/datatype" {
			return true
		}
		switch name {
		case "avp.go", "group.go", "message.go", "header.go":
			return true
		}
		return false
	}
	for _, dir := range []string{"diam/datatype", "diam"} {
		if ents, err := os.ReadDir(filepath.Join(repo, dir)); err == nil {
			for _, ent := range ents {
				if !strings.HasSuffix(ent.Name(), ".go") || strings.HasSuffix(ent.Name(), "_test.go") || !codecFile(dir, ent.Name()) {
					continue
				}
				for _, im := range parseFile(dir + "/" + ent.Name()).Imports {
					if im.Path.Value == "\"unsafe\"" {
						unsafeFiles = append(unsafeFiles, leanStr(dir+"/"+ent.Name()))
					}
				}
			}
		}
	}
	e.f("/-- codec files (diam/datatype/*.go, diam/avp.go, group.go, message.go, header.go) importing \"unsafe\" -/\ndef unsafeImports : List String := [%s]\n", strings.Join(unsafeFiles, ", "))
	e.f("/-- data types whose Go representation is not a string / number / time (so could be a view of the input): (name, underlying type, aliasing class of DecodeX) -/\ndef sliceKinded : List (String × String × String) := [%s]\n", strings.Join(kinded, ", "))
	// diam.GroupedAVP: field types (the intermediate datatype.Grouped view must not be retained)
	var gfields []string
	for _, d := range parseFile("diam/group.go").Decls {
		if gd, ok := d.(*ast.GenDecl); ok && gd.Tok == token.TYPE {
			for _, sp := range gd.Specs {
				ts := sp.(*ast.TypeSpec)
				if st, ok := ts.Type.(*ast.StructType); ok && ts.Name.Name == "GroupedAVP" {
					for _, fl := range st.Fields.List {
						gfields = append(gfields, leanStr(exprString(fl.Type)))
					}
				}
			}
		}
	}
	e.f("/-- field types of `diam.GroupedAVP` -/\ndef groupedAVPFields : List String := [%s]\n", strings.Join(gfields, ", "))
	// message.go: is the body buffer returned to the pool when ReadMessage returns?
	pooled := "unrecognised"
	if fd := findFunc(parseFile("diam/message.go"), "", "ReadMessage"); fd != nil {
		pooled = "private"
		for _, st := range fd.Body.List {
			if ds, ok := st.(*ast.DeferStmt); ok && exprString(ds.Call.Fun) == "putReaderBuffer" {
				pooled = "pooled"
			}
		}
	}
	e.f("/-- `ReadMessage`: what happens to the buffer the body was decoded from -/\ndef bodyBuffer : String := %s\n", leanStr(pooled))

	// sm.New registrations and client loop bounds
	smf := parseFile("diam/sm/sm.go")
	var regs []string
	if fd := findFunc(smf, "", "New"); fd != nil {
		ast.Inspect(fd, func(n ast.Node) bool {
			if c, ok := n.(*ast.CallExpr); ok {
				f := exprString(c.Fun)
				if (f == "sm.mux.Handle" || f == "sm.mux.HandleIdx") && len(c.Args) == 2 {
					regs = append(regs, fmt.Sprintf("(%s, %s)", leanStr(exprString(c.Args[0])), leanStr(exprString(c.Args[1]))))
				}
			}
			return true
		})
	}
	e.f("/-- registrations made by `sm.New`: (key, handler expression) -/\ndef smNewRegs : List (String × String) := [%s]\n", strings.Join(regs, ", "))
	cli := parseFile("diam/sm/client.go")
	bound := func(fn string) string {
		res := "unrecognised"
		if fd := findFunc(cli, "Client", fn); fd != nil {
			ast.Inspect(fd, func(n ast.Node) bool {
				if fs, ok := n.(*ast.ForStmt); ok && fs.Cond != nil {
					res = exprString(fs.Cond)
				}
				return true
			})
		}
		return res
	}
	// client protocol structure
	inLoopCalls := func(fd *ast.FuncDecl, sel string) (inLoop, outside []string) {
		if fd == nil {
			return []string{"unrecognised"}, nil
		}
		var loops []*ast.ForStmt
		ast.Inspect(fd, func(n ast.Node) bool {
			if fs, ok := n.(*ast.ForStmt); ok {
				loops = append(loops, fs)
			}
			return true
		})
		ast.Inspect(fd, func(n ast.Node) bool {
			if c, ok := n.(*ast.CallExpr); ok {
				if se, ok := c.Fun.(*ast.SelectorExpr); ok && se.Sel.Name == sel {
					in := false
					for _, l := range loops {
						if c.Pos() >= l.Pos() && c.End() <= l.End() {
							in = true
						}
					}
					if in {
						inLoop = append(inLoop, exprString(c))
					} else {
						outside = append(outside, exprString(c))
					}
				}
			}
			return true
		})
		return
	}
	hsf := findFunc(cli, "Client", "handshake")
	dwrf := findFunc(cli, "Client", "dwr")
	a1, a2 := inLoopCalls(hsf, "makeCER")
	e.f("/-- `makeCER` calls in `handshake`: inside the transmission loop / before it -/\ndef handshakeMakeCER : List String × List String := (%s, %s)\n", strList(a1), strList(a2))
	a1, _ = inLoopCalls(hsf, "WriteTo")
	e.f("def handshakeWrites : List String := %s\n", strList(a1))
	a1, a2 = inLoopCalls(hsf, "Close")
	e.f("/-- `Close` calls in `handshake`: inside the loop / outside it -/\ndef handshakeCloses : Nat × Nat := (%d, %d)\n", len(a1), len(a2))
	a1, a2 = inLoopCalls(dwrf, "makeDWR")
	e.f("def dwrMakeDWR : List String × List String := (%s, %s)\n", strList(a1), strList(a2))
	a1, _ = inLoopCalls(dwrf, "WriteToStream")
	e.f("def dwrWrites : List String := %s\n", strList(a1))
	a1, a2 = inLoopCalls(dwrf, "Close")
	e.f("def dwrCloses : Nat × Nat := (%d, %d)\n", len(a1), len(a2))
	// dwr: a non-blocking receive from dwac before the loop (drains a left-over ack)
	drain := false
	if dwrf != nil {
		for _, st := range dwrf.Body.List {
			if _, isFor := st.(*ast.ForStmt); isFor {
				break
			}
			if sel, ok := st.(*ast.SelectStmt); ok {
				hasRecv, hasDefault := false, false
				for _, cc := range sel.Body.List {
					c := cc.(*ast.CommClause)
					if c.Comm == nil {
						hasDefault = true
					} else if strings.Contains(exprString2(c.Comm), "<-dwac") {
						hasRecv = true
					}
				}
				if hasRecv && hasDefault {
					drain = true
				}
			}
		}
	}
	e.f("/-- `dwr` discards a left-over ack (non-blocking receive from dwac) before its first DWR -/\ndef dwrDrainsFirst : Bool := %s\n", boolLean(drain))
	// handleCEA: body wrapped in sync.Once; handleDWA: the send on dwac is in a select with default
	onceDo := false
	if fd := findFunc(parseFile("diam/sm/cea.go"), "", "handleCEA"); fd != nil {
		ast.Inspect(fd, func(n ast.Node) bool {
			if c, ok := n.(*ast.CallExpr); ok && exprString(c.Fun) == "once.Do" {
				onceDo = true
			}
			return true
		})
	}
	e.f("def ceaHandlerOnce : Bool := %s\n", boolLean(onceDo))
	nbSend := false
	if fd := findFunc(parseFile("diam/sm/dwa.go"), "", "handleDWA"); fd != nil {
		ast.Inspect(fd, func(n ast.Node) bool {
			if sel, ok := n.(*ast.SelectStmt); ok {
				hasSend, hasDefault := false, false
				for _, cc := range sel.Body.List {
					c := cc.(*ast.CommClause)
					if c.Comm == nil {
						hasDefault = true
					} else if _, ok := c.Comm.(*ast.SendStmt); ok {
						hasSend = true
					}
				}
				if hasSend && hasDefault {
					nbSend = true
				}
			}
			return true
		})
	}
	e.f("def dwaSendNonBlocking : Bool := %s\n", boolLean(nbSend))
	e.f("/-- loop condition of the CER transmission loop in `handshake` -/\ndef handshakeLoopCond : String := %s\n", leanStr(bound("handshake")))
	e.f("/-- loop condition of the DWR transmission loop in `dwr` -/\ndef dwrLoopCond : String := %s\n", leanStr(bound("dwr")))
	// Server.Serve: the accept loop
	retryCond, resets, spawn, deferLClose := "unrecognised", false, false, false
	first, factor, maxd := 0, 0, 0
	durMs := func(x string) int {
		x = strings.Trim(x, "()")
		parts := strings.Split(x, "*")
		if len(parts) != 2 {
			return 0
		}
		n, err := strconv.Atoi(strings.TrimSpace(parts[0]))
		if err != nil {
			return 0
		}
		switch strings.TrimSpace(parts[1]) {
		case "time.Millisecond":
			return n
		case "time.Second":
			return n * 1000
		}
		return 0
	}
	if fd := findFunc(srv, "Server", "Serve"); fd != nil {
		if len(fd.Body.List) > 0 {
			if ds, ok := fd.Body.List[0].(*ast.DeferStmt); ok && exprString(ds.Call) == "l.Close()" {
				deferLClose = true
			}
		}
		ast.Inspect(fd, func(n ast.Node) bool {
			switch x := n.(type) {
			case *ast.IfStmt:
				if x.Init != nil && strings.Contains(exprString(x.Cond), "ne.") {
					retryCond = exprString(x.Cond)
				}
			case *ast.AssignStmt:
				if len(x.Lhs) == 1 && len(x.Rhs) == 1 {
					l, r := exprString(x.Lhs[0]), exprString(x.Rhs[0])
					switch {
					case l == "tempDelay" && x.Tok == token.ASSIGN && r == "0":
						resets = true
					case l == "tempDelay" && x.Tok == token.ASSIGN && durMs(r) > 0:
						first = durMs(r)
					case l == "tempDelay" && x.Tok == token.MUL_ASSIGN:
						factor, _ = strconv.Atoi(r)
					case l == "max" && durMs(r) > 0:
						maxd = durMs(r)
					}
				}
			case *ast.GoStmt:
				if exprString(x.Call.Fun) == "c.serve" {
					spawn = true
				}
			}
			return true
		})
	}
	e.f("/-- `Server.Serve`: condition under which an Accept error is retried -/\ndef acceptRetryCond : String := %s\n", leanStr(retryCond))
	e.f("/-- back-off of the accept loop in milliseconds: first delay, multiplier, cap -/\ndef acceptBackoffFirstMs : Nat := %d\ndef acceptBackoffFactor : Nat := %d\ndef acceptBackoffMaxMs : Nat := %d\n", first, factor, maxd)
	e.f("def acceptResetsDelay : Bool := %s\ndef acceptSpawnsServe : Bool := %s\ndef serveDefersListenerClose : Bool := %s\n", boolLean(resets), boolLean(spawn), boolLean(deferLClose))
	// server.go: where a connection's buffered reader / writer come from (every assignment to
	// `c.buf` or one of its parts), and what `response.WriteStream` returns
	var bufSrc []string
	ast.Inspect(srv, func(n ast.Node) bool {
		if as, ok := n.(*ast.AssignStmt); ok {
			for i, l := range as.Lhs {
				if ls := exprString(l); (ls == "c.buf" || strings.HasPrefix(ls, "c.buf.")) && i < len(as.Rhs) {
					bufSrc = append(bufSrc, ls+"="+exprString(as.Rhs[i]))
				}
			}
		}
		return true
	})
	e.f("/-- every assignment to a connection's buffered reader / writer in server.go -/\ndef connBufferSources : List String := %s\n", strList(bufSrc))
	var wsRet []string
	if fd := findFunc(srv, "response", "WriteStream"); fd != nil {
		ast.Inspect(fd, func(n ast.Node) bool {
			switch x := n.(type) {
			case *ast.ReturnStmt:
				var parts []string
				for _, r := range x.Results {
					parts = append(parts, exprString(r))
				}
				wsRet = append(wsRet, "return "+strings.Join(parts, ","))
			case *ast.DeferStmt:
				wsRet = append(wsRet, "defer "+exprString(x.Call))
			case *ast.GoStmt:
				wsRet = append(wsRet, "go "+exprString(x.Call))
			}
			return true
		})
	} else {
		wsRet = []string{"unrecognised"}
	}
	e.f("/-- `response.WriteStream`: its return, defer and go statements in source order -/\ndef responseWriteStreamExits : List String := %s\n", strList(wsRet))
	// response.Write: what it returns, and whether anything in server.go resets a buffered writer
	// (which would clear bufio's sticky error and let a retry resume on a half-written message)
	var rwRet []string
	if fd := findFunc(srv, "response", "Write"); fd != nil {
		ast.Inspect(fd, func(n ast.Node) bool {
			if x, ok := n.(*ast.ReturnStmt); ok {
				var parts []string
				for _, r := range x.Results {
					parts = append(parts, exprString(r))
				}
				rwRet = append(rwRet, "return "+strings.Join(parts, ","))
			}
			return true
		})
	} else {
		rwRet = []string{"unrecognised"}
	}
	e.f("/-- `response.Write`: its return statements in source order -/\ndef responseWriteReturns : List String := %s\n", strList(rwRet))
	e.f("/-- `Reset` calls in server.go -/\ndef serverResetCalls : List String := %s\n", strList(callsOf(&ast.FuncDecl{Name: ast.NewIdent("all"), Type: &ast.FuncType{Params: &ast.FieldList{}}, Body: &ast.BlockStmt{List: declStmts(srv)}}, "Reset")))
	// sm/client.go handshake: how the CEA / DWA handlers it registers on the (shared) mux find
	// the channels to report to
	var hsRegs []string
	if fd := findFunc(parseFile("diam/sm/client.go"), "Client", "handshake"); fd != nil {
		ast.Inspect(fd, func(n ast.Node) bool {
			if c, ok := n.(*ast.CallExpr); ok {
				if se, ok := c.Fun.(*ast.SelectorExpr); ok && (se.Sel.Name == "Handle" || se.Sel.Name == "HandleFunc" || se.Sel.Name == "HandleIdx") && len(c.Args) == 2 {
					if k := exprString(c.Args[0]); k == "\"CEA\"" || k == "\"DWA\"" {
						hsRegs = append(hsRegs, k+"="+exprString(c.Args[1]))
					}
				}
			}
			return true
		})
	} else {
		hsRegs = []string{"unrecognised"}
	}
	e.f("/-- `Client.handshake`: the CEA / DWA handlers registered on the state machine's mux -/\ndef handshakeAnswerHandlers : List String := %s\n", strList(hsRegs))
	// closeNotify: what the MultistreamConn branch does (no pipe, no copy goroutine: the
	// association's error handler closes and notifies; the reader loop's exit path notifies too)
	var cnMulti []string
	if fd := findFunc(srv, "conn", "closeNotify"); fd != nil {
		ast.Inspect(fd, func(n ast.Node) bool {
			is, ok := n.(*ast.IfStmt)
			if !ok || is.Init == nil || !strings.Contains(exprString2(is.Init), "MultistreamConn") {
				return true
			}
			ast.Inspect(is.Body, func(m ast.Node) bool {
				if c, ok := m.(*ast.CallExpr); ok {
					if se, ok := c.Fun.(*ast.SelectorExpr); ok {
						cnMulti = append(cnMulti, se.Sel.Name)
					}
				}
				return true
			})
			return false
		})
	}
	e.f("/-- calls in the MultistreamConn branch of `conn.closeNotify` -/\ndef closeNotifyMultiCalls : List String := %s\n", strList(cnMulti))
	// server.go: which functions perform a TLS handshake (it belongs to the connection's own
	// goroutine; in the accept loop a peer that never finishes it would stall the listener)
	var hsSites []string
	for _, d := range srv.Decls {
		if fd, ok := d.(*ast.FuncDecl); ok && fd.Body != nil {
			if len(callsOf(fd, "Handshake")) > 0 || len(callsOf(fd, "HandshakeContext")) > 0 {
				recv := ""
				if fd.Recv != nil && len(fd.Recv.List) > 0 {
					recv = strings.TrimPrefix(exprString(fd.Recv.List[0].Type), "*") + "."
				}
				hsSites = append(hsSites, recv+fd.Name.Name)
			}
		}
	}
	e.f("/-- functions of server.go that call a TLS `Handshake` -/\ndef tlsHandshakeSites : List String := %s\n", strList(hsSites))
	e.f("end Gen\n")
	e.write("Struct.lean")
}
