"""Per-property configuration of ./check: correspondence domains, case counts per tier,
which Spec verdict prefixes decide the property, the theorem registry (audited with
#print axioms on every run) and the regenerated facts the theorems consume."""

TRUSTED_BASE = [
    "Lean 4.33.0 kernel (thorough tier: re-checked with leanchecker)",
    "axioms allowed: propext, Classical.choice, Quot.sound (each theorem's actual axioms are listed under coverage.theorems)",
    "extractor /verif/extract (go/ast): constants, tables, layouts, arithmetic kernels, embedded dictionaries, structural facts emitted to lean/Gen",
    "correspondence check: /verif/harness generators, canonical printers, in-memory transports; Lean driver's line parser",
    "Go runtime and standard library behave as modelled (bufio, io.ReadFull, bytes.Buffer, sync, channels, time.After, net.IP.To4/To16, encoding/binary, encoding/xml, reflect)",
]
ASSUMPTIONS = [
    "the theorems are about the hand-written Lean model; the model is tied to the source by the regenerated Gen facts and by differential execution on the generated inputs only",
]

CODEC_TRUST = ["Model.Codec hand-written from diam/avp.go, group.go, header.go, message.go, datatype/*.go"]

CONN_TRUST = ["Model.Conn / Model.Shared hand-written from diam/server.go (conn.serve, liveSwitchReader, closeNotify, notifyClientGone, ServeMux.ServeDIAM); goroutine scheduling between library statements is not controlled: the harness drives the real code at transport / handler boundaries and waits for quiescence (goroutine dumps), the theorems cover every interleaving of the model's events"]

CLIENT_TRUST = ["Model.Client hand-written from diam/sm/client.go (handshake, watchdog, dwr, makeCER, makeDWR), cea.go, dwa.go, smparser/cea.go; time is logical in the model (a timer event = the time.After branch of a select being taken); the harness runs the real timers on 30 ms intervals against an event-driven scripted peer, and a verdict that could depend on scheduling delay is re-run alone before it is believed"]

PROPS = {
    "C01": dict(
        domains=[("codec", "build", 12000, 150000), ("codec", "decode", 6000, 80000), ("codec", "frame", 2000, 40000), ("dict", "mono", 1500, 15000), ("alias", "hist", 800, 8000)],
        relevant=["C01:"],
        theorems=['DV.Props.C01.C01_api_avps', 'DV.Props.C01.C01_api_reserialise', 'DV.Props.C01.C01_api_same_tree', 'DV.Props.C01.C01_api_msg', 'DV.Props.C01.C01_wire_counterexample_v4mapped', 'DV.Props.C01.C01_wire_counterexample_other16', 'DV.Props.C01.C01_wire_counterexample_other4', 'DV.Props.C01.C01_wire_partial', 'DV.Props.C01.C01_wire_reads', 'DV.Props.C01.C01_wire_msg', 'DV.Props.C01.C01_gen'],
        gen_obligations=['Gen.HeaderLength', 'Gen.Vbit', 'Gen.rfc868offset', 'Gen.rfc2030offset', 'Gen.typeIds', 'Gen.hdrLayoutEnc = Gen.hdrLayoutDec', 'Gen.available ⊆ Gen.decoderKeys'],
        trusted=CODEC_TRUST,
    ),
    "C02": dict(
        domains=[("codec", "build", 12000, 150000)],
        relevant=["C02:"],
        theorems=['DV.Props.C02.C02_pad4', 'DV.Props.C02.C02_pad4_spec', 'DV.Props.C02.C02_uint24to32', 'DV.Props.C02.C02_uint32to24', 'DV.Props.C02.C02_uint24_roundtrip', 'DV.Props.C02.C02_be3_rd', 'DV.Props.C02.C02_time_enc', 'DV.Props.C02.C02_time_roundtrip', 'DV.Props.C02.C02_time_model', 'DV.Props.C02.C02_ref_enc_avps', 'DV.Props.C02.C02_ref_enc_msg', 'DV.Props.C02.C02_ref_dec', 'DV.Props.C02.C02_len_mod4', 'DV.Props.C02.C02_length', 'DV.Props.C02.C02_new_message', 'DV.Props.C02.C02_layout', 'DV.Props.C02.C02_gen', 'DV.Props.C02.C02_header_roundtrip'],
        gen_obligations=['Gen.pad4', 'Gen.uint24to32', 'Gen.uint32to24', 'Gen.timeEnc', 'Gen.timeDecLow', 'Gen.timeDecHigh', 'Gen.hdrLayoutEnc', 'Gen.hdrLayoutDec', 'Gen.avpLayoutEnc', 'Gen.avpLayoutDec', 'Gen.rfc868offset', 'Gen.rfc2030offset', 'Gen.groupedStructFields', 'Gen.avpStructFields'],
        trusted=CODEC_TRUST,
    ),
    "C03": dict(
        domains=[("codec", "decode", 12000, 200000), ("codec", "frame", 4000, 60000), ("codec", "build", 2000, 20000),
                 ("resource", "claim", 1, 1), ("resource", "nest", 1, 1), ("resource", "retain", 1, 1), ("resource", "buflen", 1, 1), ("stream", "read", 3000, 30000)],
        thorough_extra=[("resource", "nestdeep", 1, 1)],
        relevant=["C03:"],
        theorems=['DV.Props.C03.C03_avp_nopanic', 'DV.Props.C03.C03_avps_nopanic', 'DV.Props.C03.C03_header_nopanic', 'DV.Props.C03.C03_message_nopanic', 'DV.Props.C03.C03_short_length_rejected', 'DV.Props.C03.C03_pretty_asserts', 'DV.Props.C03.C03_serialize_fits', 'DV.Props.C03.C03_serialize_message_fits', 'DV.Props.C03.C03_gen',
                  'DV.Props.C03.C03_body_bound', 'DV.Props.C03.C03_claimed_length_counterexample', 'DV.Props.C03.C03_nesting_cost_counterexample', 'DV.Props.C03.C03_no_linear_bound'],
        gen_obligations=['Gen.HeaderLength', 'Gen.Vbit', 'Gen.available ⊆ Gen.decoderKeys', 'Gen.prettyAsserts', 'Gen.bodyChunkLength', 'Gen.readMessageCalls', 'Gen.readBodyGuard', 'Gen.readerBufferSliceCond'],
        trusted=CODEC_TRUST,
    ),
    "C04": dict(
        domains=[("codec", "frame", 10000, 150000), ("codec", "decode", 6000, 80000)],
        relevant=["C04:"],
        theorems=['DV.Props.C04.C04_frames', 'DV.Props.C04.C04_rejects', 'DV.Props.C04.C04_bad_length', 'DV.Props.C04.C04_cursor', 'DV.Props.C04.C04_gen'],
        gen_obligations=['Gen.Vbit', 'Gen.typeIds', 'Gen.avpLayoutDec'],
        trusted=CODEC_TRUST,
    ),
    "C05": dict(
        domains=[("stream", "read", 6000, 80000), ("stream", "exhaustive", 1500, 6000), ("conn", "serve", 400, 4000), ("conn", "cnall4", 1, 1), ("conn", "xtalk", 24, 200), ("conn", "rdl", 1, 1), ("resource", "buflen", 1, 1)],
        relevant=["C05:"],
        theorems=["DV.Props.C05."+t for t in ["C05_split","C05_frag","C05_one","C05_eof","C05_in_header","C05_by_length","splitStep_whole","C05_concat","C05_concat_reads","whole_of_decodeMsg","sendable_whole","C05_sent_messages_arrive","C05_all_bytes_arrive","C05_error_first_counterexample","C05_fill_gen","C05_gen"]],
        gen_obligations=["Gen.HeaderLength","Gen.MessageBufferLength","Gen.readMessageCalls","Gen.readBodyGuard","Gen.readBodyLength","Gen.readDeadlineArming","Gen.directReadCalls","Gen.readerFillCalls"],
        trusted=CODEC_TRUST + ["Model.Stream hand-written from message.go readHeader/readBody and io.ReadFull's contract"],
    ),
    "C07": dict(
        domains=[("retry", "write", 6000, 100000), ("retry", "exhaustive", 900, 900), ("retry", "conn", 1500, 20000), ("conn", "cwrite", 150, 1500), ("conn", "lw", 200, 2000), ("conn", "pipeline", 60, 600), ("resource", "buflen", 1, 1), ("sctp", "wstall", 16, 200)],
        relevant=["C07:"],
        theorems=["DV.Props.C07."+t for t in ["C07_retry","C07_retry_stops","C07_retry_conn","C07_failed_write_is_final","C07_conn_next","C07_whole","C07_exclusive","C07_once_ordered","C07_quiescent","C07_pool_exclusive","C07_pool_double_put_counterexample","C07_pool_gen","C07_pool_capacity","C07_pool_capacity_counterexample","C07_pool_cap_gen","C07_gen"]],
        gen_obligations=["Gen.responseWriteLocked","Gen.MessageBufferLength","Gen.responseWriteReturns","Gen.serverResetCalls","Gen.connBufferSources","Gen.poolUsers","Gen.poolPrimitives","Gen.writerBufferReuseCond"],
        trusted=["Model.Retry hand-written from message.go writeRetry/writeStreamRetry; Model.Writers: LTS of response.Write (server.go); Model.Bufio: response.Write over bufio.Writer (Write / Flush / sticky error as in the Go standard library, buffer size 4096 of bufio.NewWriter - modelled, not verified)"],
    ),
    "C09": dict(
        domains=[("mux", "subsets", 6144, 24576), ("mux", "random", 6000, 100000), ("mux", "seq", 4000, 60000)],
        relevant=["C09:"],
        theorems=["DV.Props.C09."+t for t in ["C09_decision","C09_only_registered","C09_lastwins","C09_serve","C09_all_one_key","C09_all_replaced_across_apis","C09_gen"]],
        gen_obligations=["Gen.allCmdIndex","Gen.capErrorReports","Gen.muxServeRLockDeferred","Gen.muxDispatchLookups","Gen.muxStructFields"],
        trusted=["Model.Mux hand-written from server.go ServeMux; command resolution through the C17 dictionary model"],
    ),
    "C17": dict(
        domains=[("dict", "types", 1, 1), ("dict", "default", 6000, 60000), ("dict", "generated", 3000, 60000), ("dict", "mono", 2000, 40000)],
        relevant=["C17:"],
        theorems=["DV.Props.C17."+t for t in ["C17_resolution_code","C17_resolution_name","C17_command","C17_placeholder","C17_monotone","C17_chain","C17_types","C17_consts","C17_default_loads","C17_gen"]],
        gen_obligations=["Gen.dictFiles","Gen.availableIds","Gen.decoderKeys","Gen.marshalCases","Gen.parentAppIds","Gen.avpCodeJoin","Gen.cmdCodeJoin","Gen.appCodeJoin","Gen.UndefinedVendorID"],
        trusted=["Model.Dict hand-written from dict/parser.go and dict/util.go; the extractor's own XML reading of dict/default.go and its name interning"],
    ),
    "C10": dict(
        domains=[("smserver", "hist", 1500, 20000), ("smserver", "cer", 500, 5000), ("smserver", "multi", 400, 4000), ("smclient", "dialall", 1, 1), ("smclient", "dial", 200, 3000), ("smserver", "many", 1, 1), ("smclient", "redial", 1, 1)],
        relevant=["C10:"],
        theorems=["DV.Props.C10."+t for t in ["C10_gate","C10_after","C10_meta_after_write","C10_history","C10_builtin","C10_names_refused","C10_client_first_cea_decides","C10_client_gate_needs_success","C10_gate_gen","C10_gen"]],
        gen_obligations=["Gen.smNewRegs","Gen.cmdCapabilitiesExchange","Gen.cmdDeviceWatchdog","Gen.handshakeGateType","Gen.handshakeGateBody","Gen.channelSends","Gen.handshakeRegistrations"],
        trusted=["Model.SM hand-written from diam/sm/sm.go, cer.go, dwr.go, smparser/*.go, smpeer/metadata.go; dispatch through the C09 mux model"],
    ),
    "C11": dict(
        domains=[("smserver", "cer", 2500, 40000), ("smserver", "hist", 800, 10000), ("smserver", "multi", 400, 5000), ("smserver", "many", 1, 1), ("smserver", "tlscer", 12, 60)],
        relevant=["C11:"],
        theorems=["DV.Props.C11."+t for t in ["C11_accept_iff","C11_accept_meta","C11_reject_code","C11_cea_fields","C11_cea_identity","C11_cea_local_address","C11_gen"]],
        gen_obligations=["Gen.rcSuccess","Gen.rcNoCommonApplication","Gen.rcNoCommonSecurity","Gen.rcUnableToComply","Gen.relayAppId","Gen.cmdCapabilitiesExchange","Gen.handleCERCalls"],
        trusted=["Model.SM hand-written from diam/sm/cer.go and smparser (CER.Parse, Application.Parse, chooseErr, handleGroup, validate); getLocalAddresses as a table over the harness' endpoint menu"],
    ),
    "C16": dict(
        domains=[("codec", "answer", 6000, 100000), ("smserver", "hist", 800, 10000), ("smserver", "cer", 800, 10000), ("sctp", "serve", 300, 4000), ("sctp", "canswer", 120, 1500), ("retry", "write", 2000, 30000)],
        relevant=["C16:"],
        theorems=['DV.Props.C16.C16_answer_ids', 'DV.Props.C16.C16_answer_flags', 'DV.Props.C16.C16_answer_result_code', 'DV.Props.C16.C16_answer_stream', 'DV.Props.C16.C16_sctp_stream', 'DV.Props.C16.C16_answer_len', 'DV.Props.C16.C16_gen', 'DV.Props.C16.C16_cea', 'DV.Props.C16.C16_dwa', 'DV.Props.C16.C16_concurrent_streams', 'DV.Props.C16.C16_select_then_write_counterexample'],
        gen_obligations=['Gen.RequestFlag', 'Gen.InvalidStreamID', 'Gen.Mbit', 'Gen.responseWriteStreamExits', 'Gen.writeStreamArgs'],
        trusted=CODEC_TRUST,
    ),
    "C20": dict(
        domains=[("codec", "find", 8000, 120000), ("codec", "findn", 2000, 30000)],
        relevant=["C20:"],
        theorems=['DV.Props.C20.C20_all', 'DV.Props.C20.C20_first', 'DV.Props.C20.C20_first_sound', 'DV.Props.C20.C20_all_sound', 'DV.Props.C20.C20_path', 'DV.Props.C20.C20_gen'],
        gen_obligations=['Gen.GroupedAVPType', 'Gen.messageStructFields', 'Gen.groupedStructFields'],
        trusted=CODEC_TRUST,
    ),
    "C08": dict(
        domains=[("conn", "slowh", 6, 40), ("conn", "serve", 500, 6000), ("conn", "multi", 300, 4000), ("conn", "cnall4", 1, 1), ("conn", "accept", 60, 600), ("conn", "burst", 30, 300), ("sctp", "serve", 200, 2000), ("conn", "bigblock", 1, 1)],
        thorough_extra=[("conn", "cnall5", 1, 1)],
        relevant=["C08:"],
        theorems=["DV.Props.C08."+t for t in ["C08_one_at_a_time","C08_next_after_return","C08_order","C08_all_dispatched","C08_frame","C08_enabled","C08_gen"]],
        gen_obligations=["Gen.serveDispatchSync","Gen.goServeSites","Gen.muxServeRLockDeferred","Gen.acceptSpawnsServe","Gen.sharedBlockingState","Gen.serverHandlerCalls"],
        trusted=CONN_TRUST,
    ),
    "C14": dict(
        domains=[("conn", "closenotify", 600, 8000), ("conn", "cnall4", 1, 1), ("conn", "serve", 200, 2000), ("sctp", "serve", 300, 4000), ("conn", "tlscn", 8, 40), ("conn", "stall", 1, 1), ("conn", "wfail", 1, 1), ("conn", "fullrep", 1, 1)],
        thorough_extra=[("conn", "cnall6", 1, 1)],
        relevant=["C14:"],
        theorems=["DV.Props.C14."+t for t in ["C14_once","C14_only_when_gone","C14_quiet","C14_late_request","C14_transparent","C14_nothing_stuck","C14_multistream","C14_close_never_waits","C14_stuck_writer_released","C14_close_behind_write_lock_counterexample","C14_close_gen","C14_gen"]],
        gen_obligations=["Gen.serveDeferClose","Gen.serveDeferNotify","Gen.serveDispatchSync","Gen.closeNotifyMultiCalls","Gen.closePaths"],
        trusted=CONN_TRUST,
    ),
    "C15": dict(
        domains=[("conn", "faults", 500, 6000), ("conn", "faults2", 300, 4000), ("conn", "multi", 300, 4000), ("conn", "accept", 60, 600), ("conn", "lw", 300, 4000), ("conn", "xtalk", 40, 400), ("conn", "stall", 1, 1), ("conn", "burst", 30, 300), ("conn", "fullrep", 1, 1)],
        thorough_extra=[("conn", "cnall5", 1, 1)],
        relevant=["C15:"],
        theorems=["DV.Props.C15."+t for t in ["C15_panic_contained","C15_bad_input_contained","C15_one_report","C15_fault_cleanup","C15_frame","C15_mux_lock","C15_mux_lock_needs_defer","C15_listener","C15_listener_perm","C15_write_contained","C15_late_write_fails","C15_write_needs_own_writer","C15_pool_exclusive","C15_pool_double_put_counterexample","C15_pool_gen","C15_fault_closes_despite_stuck_writer","C15_close_gen","C15_gen"]],
        gen_obligations=["Gen.serveDeferRecover","Gen.serveDeferClose","Gen.serveDeferNotify","Gen.muxServeRLockDeferred","Gen.acceptRetryCond","Gen.acceptBackoffFirstMs","Gen.acceptBackoffFactor","Gen.acceptBackoffMaxMs","Gen.acceptResetsDelay","Gen.acceptSpawnsServe","Gen.serveDefersListenerClose","Gen.capErrorReports","Gen.connBufferSources","Gen.tlsHandshakeSites","Gen.poolUsers","Gen.closePaths","Gen.serveReportCond","Gen.sharedBlockingState"],
        trusted=CONN_TRUST + ["Model.Listener hand-written from Server.Serve's accept loop; back-off constants regenerated",
                              "Model.ConnWrite: writer objects and the transports they point at (Server.newConn, response.Write); that each connection allocates its own bufio.Writer is the regenerated fact Gen.connBufferSources"],
    ),
    "C06": dict(
        domains=[("alias", "leaf", 4000, 60000), ("alias", "hist", 1500, 20000), ("smserver", "hist", 800, 10000), ("reflect", "rt", 600, 6000), ("smserver", "multi", 400, 4000), ("alias", "twin", 300, 3000)],
        relevant=["C06:"],
        theorems=["DV.Props.C06."+t for t in ["C06_owned","C06_unchanged","C06_private_buffer","C06_gen","C06_current","C06_alias_counterexample"]],
        gen_obligations=["Gen.sliceKinded","Gen.decoderAliasing","Gen.groupedAVPFields","Gen.bodyBuffer","Gen.syncPools"],
        trusted=CODEC_TRUST + ["Model.Alias: memory model of the pooled reader buffers (sync.Pool may hand any pooled buffer to any later ReadMessage); which decoders copy is read from the source by the extractor and checked behaviourally per data type"],
    ),
    "C19": dict(
        domains=[("sctp", "demux", 6000, 100000), ("sctp", "exhaustive", 1, 1), ("sctp", "serve", 300, 4000), ("retry", "write", 2000, 30000)],
        relevant=["C19:"],
        theorems=["DV.Props.C19."+t for t in ["C19_perstream","C19_reference","C19_one_message","C19_complete","splitMsgs_whole","C19_whole_streams","C19_gen"]],
        gen_obligations=["Gen.sctpHeaderReads","Gen.sctpHeaderPins","Gen.sctpBodyReads","Gen.sctpAtLeastReads","Gen.connResetsStream","Gen.sctpWriteStreamCalls","Gen.HeaderLength"],
        trusted=CODEC_TRUST + ["Model.Sctp hand-written from diam/network_sctp.go (ReadAny, ReadStream, ReadAtLeast, verifyStreamBuff, bufferStreamData) and message.go readHeader/readBody; the kernel SCTP socket is replaced by the in-memory backend of the 'verif' hook (diam/verif_sctp.go): chunks are delivered in order, a chunk larger than the caller's buffer continues on the next read, every read carries stream information"],
    ),
    "C12": dict(
        domains=[("smclient", "dialall", 1, 1), ("smclient", "dial", 400, 6000), ("smclient", "cea", 3000, 40000), ("smclient", "dialtcp", 1, 1), ("smclient", "redial", 1, 1)],
        relevant=["C12:"],
        theorems=["DV.Props.C12."+t for t in ["C12_bound","C12_outcome","C12_timeout_last","C12_stable","C12_noblock","C12_cer","C12_cea_accept","C12_duplicate_cea_counterexample","C12_late_failure_counterexample","C12_answers_by_connection","C12_gen"]],
        gen_obligations=["Gen.handshakeAnswerHandlers","Gen.capErrc","Gen.ceaHandlerOnce","Gen.handshakeMakeCER","Gen.handshakeWrites","Gen.handshakeCloses","Gen.handshakeLoopCond","Gen.clientTimers","Gen.smDeadlineCalls","Gen.channelSends"],
        trusted=CLIENT_TRUST,
    ),
    "C13": dict(
        domains=[("smclient", "wd", 400, 6000), ("smserver", "hist", 800, 10000)],
        relevant=["C13:"],
        theorems=["DV.Props.C13."+t for t in ["C13_bound","C13_ack_not_lost","C13_responsive","C13_silent","C13_failure_dwa_ignored","C13_drained","C13_lost_ack_counterexample","C13_dwa","C13_answers_by_connection","C13_latest_handshake_counterexample","C13_gen"]],
        gen_obligations=["Gen.handshakeAnswerHandlers","Gen.capDwac","Gen.dwrDrainsFirst","Gen.dwaSendNonBlocking","Gen.dwrMakeDWR","Gen.dwrWrites","Gen.dwrCloses","Gen.dwrLoopCond","Gen.clientTimers","Gen.handleDWRCalls","Gen.handleDWACalls"],
        trusted=CLIENT_TRUST,
    ),
    "C18": dict(
        domains=[("reflect", "rt", 4200, 63000)],
        relevant=["C18:"],
        theorems=["DV.Props.C18."+t for t in ["C18_faithful","C18_leaf","C18_optional","C18_leaf_inverse","C18_inverse","C18_wire","C18_duplicate_code_counterexample"]],
        gen_obligations=["Gen.marshalCases"],
        trusted=CODEC_TRUST + ["Model.Reflect hand-written from diam/reflect.go (marshalStruct, marshal, scanStruct, unmarshal, parseAvpTag for single-key tags, isEmptyValue); Go's assignability / convertibility between the field types of the harness' struct family is the pair toData / fromData; the harness' reflection walker that describes Go struct types and values to the model"],
    ),
}
