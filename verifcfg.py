"""Per-property configuration of ./check: correspondence domains, case counts per tier,
which Spec verdict prefixes decide the property, the theorem registry (audited with
#print axioms on every run) and the regenerated facts the theorems consume."""

TRUSTED_BASE = [
    "Lean 4.33.0 kernel (thorough tier: re-checked with leanchecker)",
    "axioms allowed: propext, Classical.choice, Quot.sound (each theorem's actual axioms are listed under coverage.theorems)",
    "extractor /verif/extract (go/ast): constants, tables, layouts, arithmetic kernels, embedded dictionaries, structural facts emitted to lean/Gen",
    "correspondence check: /verif/harness generators, canonical printers, in-memory transports; Lean driver's line parser",
    "Go runtime and standard library behave as modelled (bufio, io.ReadFull, bytes.Buffer, sync, channels, time.After, net.IP.To4/To16, encoding/binary, encoding/xml, reflect)",
]
ASSUMPTIONS = [
    "the theorems are about the hand-written Lean model; the model is tied to the source by the regenerated Gen facts and by differential execution on the generated inputs only",
]

CODEC_TRUST = ["Model.Codec hand-written from diam/avp.go, group.go, header.go, message.go, datatype/*.go"]

PROPS = {
    "C01": dict(
        domains=[("codec", "build", 12000, 150000), ("codec", "decode", 6000, 80000), ("codec", "frame", 2000, 40000)],
        relevant=["C01:"],
        theorems=[],
        trusted=CODEC_TRUST,
    ),
    "C02": dict(
        domains=[("codec", "build", 12000, 150000)],
        relevant=["C02:"],
        theorems=[],
        trusted=CODEC_TRUST,
    ),
    "C03": dict(
        domains=[("codec", "decode", 12000, 200000), ("codec", "frame", 4000, 60000), ("codec", "build", 2000, 20000)],
        relevant=["C03:"],
        theorems=['DV.Props.C03.C03_avp_nopanic', 'DV.Props.C03.C03_avps_nopanic', 'DV.Props.C03.C03_header_nopanic', 'DV.Props.C03.C03_message_nopanic', 'DV.Props.C03.C03_short_length_rejected', 'DV.Props.C03.C03_pretty_asserts', 'DV.Props.C03.C03_gen'],
        gen_obligations=['Gen.HeaderLength', 'Gen.Vbit', 'Gen.available ⊆ Gen.decoderKeys', 'Gen.prettyAsserts'],
        trusted=CODEC_TRUST,
    ),
    "C04": dict(
        domains=[("codec", "frame", 10000, 150000), ("codec", "decode", 6000, 80000)],
        relevant=["C04:"],
        theorems=['DV.Props.C04.C04_frames', 'DV.Props.C04.C04_rejects', 'DV.Props.C04.C04_bad_length', 'DV.Props.C04.C04_cursor', 'DV.Props.C04.C04_gen'],
        gen_obligations=['Gen.Vbit', 'Gen.typeIds', 'Gen.avpLayoutDec'],
        trusted=CODEC_TRUST,
    ),
    "C16": dict(
        domains=[("codec", "answer", 6000, 100000)],
        relevant=["C16:"],
        theorems=['DV.Props.C16.C16_answer_ids', 'DV.Props.C16.C16_answer_flags', 'DV.Props.C16.C16_answer_result_code', 'DV.Props.C16.C16_answer_stream', 'DV.Props.C16.C16_sctp_stream', 'DV.Props.C16.C16_answer_len', 'DV.Props.C16.C16_gen'],
        gen_obligations=['Gen.RequestFlag', 'Gen.InvalidStreamID', 'Gen.Mbit'],
        trusted=CODEC_TRUST,
    ),
    "C20": dict(
        domains=[("codec", "find", 8000, 120000)],
        relevant=["C20:"],
        theorems=['DV.Props.C20.C20_all', 'DV.Props.C20.C20_first', 'DV.Props.C20.C20_first_sound', 'DV.Props.C20.C20_all_sound', 'DV.Props.C20.C20_path', 'DV.Props.C20.C20_gen'],
        gen_obligations=['Gen.GroupedAVPType'],
        trusted=CODEC_TRUST,
    ),
}
